package main

// C06, route P (busy node): a replica's state must not depend on what ELSE the process does.
//
// Object pools and caches are process-global: shared by the apply routines of all shards of a node and by
// the read path. Replica P applies the committed log of the case through an UpdateOperationCallback that wraps
// the real chain (server.WrapperUpdateOperationCallback) and, before and after delegating OnPut / OnDelete /
// OnDeleteWithEntry / OnDeleteRange - i.e. INSIDE applyPut / applyDelete / applyDeleteRange, between reading
// the existing record and storing the new one - runs other activity of the same process, chosen from the seed:
// a put / overwrite / delete applied on a SECOND kv.DB (another shard), metadata-only and full gets on both
// databases, a list. Replica Q applies the same log alone, in lockstep. After the log, a few existing keys
// are overwritten in a row on both. After EVERY entry the responses and the full dumps of P and Q must be
// identical, and (sampled) two consecutive proto.StorageEntryFromVTPool() must hand out distinct objects.
//
// SPEC VERDICTS  determinism:routes-differ:busy-node    pool:same-object-handed-out-twice

import (
	"fmt"
	"strings"

	"github.com/oxia-db/oxia/proto"
	"github.com/oxia-db/oxia/server"
	"github.com/oxia-db/oxia/server/kv"

	"verif/harness/internal/hx"
)

type c06Busy struct {
	rng     *hx.Rng
	target  kv.DB
	other   kv.DB
	off     int64 // next offset of the other shard's log
	keys    []string
	trace   []string
	current []string // activity during the entry being applied
	on      bool
}

var c06OtherValues = []string{"", "o", "other-value", "oooooooooooooooooooooooooooooooooooooooooooooooo"}

func (b *c06Busy) otherWrite(req *proto.WriteRequest) {
	b.off++
	_, err := b.other.ProcessWrite(req, b.off, uint64(5000+b.off), server.WrapperUpdateOperationCallback)
	hx.Must(err)
}

// act runs one or two pieces of unrelated activity; `when` names the hook it runs from.
func (b *c06Busy) act(when string, key string) {
	if !b.on {
		return
	}
	for i, n := 0, 1+b.rng.Intn(2); i < n; i++ {
		ok := hx.Pick(b.rng, b.keys)
		var what string
		switch b.rng.Intn(8) {
		case 0:
			what = "other-shard put " + ok
			b.otherWrite(&proto.WriteRequest{Puts: []*proto.PutRequest{{Key: ok, Value: []byte(hx.Pick(b.rng, c06OtherValues))}}})
		case 1:
			what = "other-shard delete+put " + ok
			b.otherWrite(&proto.WriteRequest{Deletes: []*proto.DeleteRequest{{Key: ok}}})
			b.otherWrite(&proto.WriteRequest{Puts: []*proto.PutRequest{{Key: ok, Value: []byte(hx.Pick(b.rng, c06OtherValues))}}})
		case 2, 3:
			what = "other-shard get(no value) " + ok
			_, err := b.other.Get(&proto.GetRequest{Key: ok, IncludeValue: false})
			hx.Must(err)
		case 4:
			what = "other-shard get " + ok
			_, err := b.other.Get(&proto.GetRequest{Key: ok, IncludeValue: true})
			hx.Must(err)
		case 5:
			what = "same-shard get(no value) " + hexs(key)
			if key != "" {
				_, _ = b.target.Get(&proto.GetRequest{Key: key, IncludeValue: false})
			}
		case 6:
			what = "same-shard get " + hexs(key)
			if key != "" {
				_, _ = b.target.Get(&proto.GetRequest{Key: key, IncludeValue: true})
			}
		default:
			what = "other-shard list"
			it, err := b.other.List(&proto.ListRequest{StartInclusive: "o", EndExclusive: "p"})
			hx.Must(err)
			for ; it.Valid(); it.Next() {
			}
			_ = it.Close()
		}
		b.current = append(b.current, when+":"+what)
	}
}

func (b *c06Busy) OnPut(batch kv.WriteBatch, req *proto.PutRequest, se *proto.StorageEntry) (proto.Status, error) {
	b.act("OnPut-before", req.Key)
	st, err := server.WrapperUpdateOperationCallback.OnPut(batch, req, se)
	b.act("OnPut-after", req.Key)
	return st, err
}

func (b *c06Busy) OnDelete(batch kv.WriteBatch, key string) error {
	b.act("OnDelete-before", key)
	err := server.WrapperUpdateOperationCallback.OnDelete(batch, key)
	b.act("OnDelete-after", key)
	return err
}

func (b *c06Busy) OnDeleteWithEntry(batch kv.WriteBatch, key string, value *proto.StorageEntry) error {
	b.act("OnDeleteWithEntry-before", key)
	err := server.WrapperUpdateOperationCallback.OnDeleteWithEntry(batch, key, value)
	b.act("OnDeleteWithEntry-after", key)
	return err
}

func (b *c06Busy) OnDeleteRange(batch kv.WriteBatch, start string, end string) error {
	b.act("OnDeleteRange-before", start)
	err := server.WrapperUpdateOperationCallback.OnDeleteRange(batch, start, end)
	b.act("OnDeleteRange-after", start)
	return err
}

func c06ApplyCb(db kv.DB, w *wreq, cb kv.UpdateOperationCallback) (res string) {
	defer func() {
		if x := recover(); x != nil {
			res = "panic"
		}
	}()
	resp, err := db.ProcessWrite(w.toProto(), w.offset, w.ts, cb)
	return c06RespText(resp, err)
}

// two consecutive allocations from the process-wide pool of storage entries must be distinct objects
func c06PoolCheck(o *hx.Out, ctx func() string) {
	a := proto.StorageEntryFromVTPool()
	b := proto.StorageEntryFromVTPool()
	o.Count("pool:checks")
	if a == b {
		o.Violation("pool:same-object-handed-out-twice", "two consecutive proto.StorageEntryFromVTPool() returned the same *StorageEntry: it was returned to the pool twice; "+ctx())
		a.ReturnToVTPool()
		return
	}
	a.ReturnToVTPool()
	b.ReturnToVTPool()
}

func c06RouteBusy(o *hx.Out, rng *hx.Rng, lg *c06Log) {
	disk := lg.pivot >= 0 && rng.Chance(50)
	p := newEnv(lg.shard, disk)
	defer p.close()
	q := newEnv(lg.shard, false)
	defer q.close()
	other := newEnv(lg.shard+100, false)
	defer other.close()
	c06Prelude(p.db, lg)
	c06Prelude(q.db, lg)
	busy := &c06Busy{rng: rng, target: p.db, other: other.db, off: -1, keys: []string{"o1", "o2", "o3", "o4", "o5"}}
	for i, k := range busy.keys {
		busy.otherWrite(&proto.WriteRequest{Puts: []*proto.PutRequest{{Key: k, Value: []byte(c06OtherValues[i%len(c06OtherValues)])}}})
	}
	busy.on = true
	bad := false
	ctx := func() string {
		return fmt.Sprintf("activity of the process while the entries were being applied: %s; %s", strings.Join(busy.trace, " "), lg.text())
	}
	step := func(i int, op string, w *wreq) {
		busy.current = nil
		got := c06ApplyCb(p.db, w, busy)
		want := c06Apply(q.db, w)
		if len(busy.current) > 0 {
			busy.trace = append(busy.trace, fmt.Sprintf("#%d[%s]", i, strings.Join(busy.current, ", ")))
		}
		o.CountN("busy:activities", len(busy.current))
		if bad {
			return
		}
		if got != want {
			bad = true
			o.Violation("determinism:routes-differ:busy-node", fmt.Sprintf("entry #%d %s answered [%s] on a quiet node and [%s] on the busy one; %s", i, op, want, got, ctx()))
			return
		}
		busy.on = false
		dp, dq := dumpText(p.dump()), dumpText(q.dump())
		busy.on = true
		if dp != dq {
			bad = true
			o.Violation("determinism:routes-differ:busy-node", fmt.Sprintf("after entry #%d %s: %s (live = the replica on a quiet node, other = the replica on the busy node); %s", i, op, firstDiff(dq, dp), ctx()))
			return
		}
		if rng.Chance(25) {
			c06PoolCheck(o, ctx)
		}
	}
	for i, en := range lg.entries {
		if disk && i == lg.pivot {
			// the busy replica re-creates its instance right after the highest timestamp so far (Q keeps its instance)
			busy.on = false
			hx.Must(p.db.Close())
			p.open()
			c06RestoreSwitch(p.db)
			busy.target = p.db
			busy.on = true
			busy.trace = append(busy.trace, fmt.Sprintf("#%d[Close+NewDB before]", i))
			o.Count("busy:reopen-at-pivot")
		}
		step(i, en.op, en.w)
	}
	if !bad && dumpText(q.dump()) != lg.final {
		bad = true
		o.Violation("determinism:routes-differ:busy-node", fmt.Sprintf("the quiet replica differs from the live route: %s; %s", firstDiff(lg.final, dumpText(q.dump())), lg.text()))
	}
	// a few overwrites of existing keys in a row (an overwrite holds the stored entry while it builds the new one)
	last := lg.entries[len(lg.entries)-1].w
	off, ts := last.offset, last.ts
	var live []string
	for _, x := range q.dump() {
		if !strings.HasPrefix(x.key, internalPrefix) && x.se != nil && x.se.SessionId == nil {
			live = append(live, x.key)
		}
	}
	for k := 0; k < 4 && len(live) > 0; k++ {
		key := live[rng.Intn(len(live))]
		off++
		ts += 3
		w := &wreq{offset: off, ts: ts, puts: []putOp{{key: key, value: []byte(hx.Pick(rng, values))}}}
		step(len(lg.entries)+k, w.String(), w)
		o.Count("busy:tail-overwrite")
	}
	if !bad {
		c06PoolCheck(o, ctx)
	}
	o.Count("route:busy-node")
}
