// harness db: drives the real kv.DB (server/kv/db.go) on Pebble with the real
// server.WrapperUpdateOperationCallback (session shadow keys + secondary indexes) through generated
// request SEQUENCES and writes inputs + canonical observables for the Coq model (coq/theories/Db).
// The extracted model (ocaml/db_main.ml) reads the same case lines; KEEP THE TWO GRAMMARS IN SYNC.
//
// CASE LINES (cases.txt; the id is inserted by hx after the kind)
//
//	seq  <id> <shard> <threshold> <op>;<op>;...   request sequence against a fresh DB, full observables
//	hseq <id> <shard> <threshold> <op>;<op>;...   hostile stream (-hostile): write results reduced to classes
//	                                              ok:<statuses> | err | panic        (used by C13)
//	pure <id> <fn> <arg>...                       pure helpers: esc unesc hex16 pad20 dec scan20 scanint cmp
//
// Byte strings are lower-case hex, "-" = empty; optional fields use "n" for absent.
// OPS (fields separated by ':')
//
//	W:<offset>:<ts>:<puts>:<dels>:<ranges>     ProcessWrite(req, offset, ts, WrapperUpdateOperationCallback)
//	    puts   = "-" | put|put|...      put = key,value,expver,session,identity,partition,deltas,indexes
//	             expver/session = n | int64;  identity/partition = n | hex
//	             deltas = "-" | u64+u64+...;  indexes = "-" | name=skey+name=skey+...
//	    dels   = "-" | key,expver|...          ranges = "-" | start,end|...
//	G:<cmp>:<key>:<incl>     Get; cmp 0..4 = EQUAL FLOOR CEILING LOWER HIGHER; incl 0|1 = IncludeValue
//	L:<start>:<end>          List                S:<start>:<end>  RangeScan
//	N:<from>                 ReadNextNotifications(from) (never waits: "err:blocked" instead)
//	T:<term>:<0|1>           UpdateTerm(term, {NotificationsEnabled})     E:<0|1>  EnableNotifications
//	B:<seed>                 busy process from here on (c12_busy.go): other pool users run inside every put/delete; model: no-op
//	R                        Close + NewDB on the same directory (disk cases only)   C  ReadCommitOffset
//	D                        full ordered dump of every key            H        md5 of the dump text
//	IG:<name>:<cmp>:<key>:<incl>  IL:<name>:<start>:<end>  IS:<name>:<start>:<end>
//	                         secondary-index Get/List/RangeScan (server/secondary_indexes.go, as
//	                         leaderController.Read/list/RangeScan call them when SecondaryIndexName is set)
//
// RESULT LINE (impl.txt)  <id> <r1>;<r2>;...   one result per op
//
//	W   ok:<putresps>:<delstatuses>:<rangestatuses> | err:<kind> | panic    (lists ","-separated, "-" empty)
//	    putresp = <STATUS> | OK/<version>/<modcount>/<ctime>/<mtime>/<session|n>/<identity|n>/<key|n>
//	G,IG  KEY_NOT_FOUND[/<key>] | <STATUS>/<key|n>/<value>/<version>/<modcount>/<ctime>/<mtime>/<session|n>/<identity|n>/<skey|n> | err:<kind>
//	L,IL  key,key,... | "-" | err:<kind> | panic
//	S   key=<value>/<version>/<modcount>/<ctime>/<mtime>/<session|n>/<identity|n>,...   IS: G-style responses
//	N   batch,...  batch = <shard>/<offset>/<ts>/<notifs>; notifs = "-" | key~c<ver>&key~m<ver>&key~d&key~r<last> (sorted)
//	T,E,R  ok | err:<kind>       C  <int> | err:<kind>
//	D   key=<val>,...  val = R/<value>/<version>/<modcount>/<ctime>/<mtime>/<session|n>/<identity|n>/<partition|n>/<indexes>
//	                       | B/<shard>/<offset>/<ts>/<notifs>      (values under __oxia/notifications/ are batches)
//	    ctime/mtime of __oxia/term and __oxia/term-options come from the wall clock: printed as 0.
//
// err kinds: missing_partition_key sequence_delta_zero missing_sequence_deltas scan deserialize
// notifications_disabled blocked bad_index_key other
//
// SPEC VERDICTS (specviol.txt): an independent sequential reference (refModel below: a Go map) is run next
// to the implementation on the non-hostile stream; stable signatures:
//
//	put:version-not-strictly-increasing  put:modcount-rule  put:conditional-iff  put:session-status
//	put:response-fields  put:sequence-key-missing
//	delete:conditional-iff  delete:absent-not-reported-not-found  delete-range:status
//	batch:state-differs-from-sequential-spec   (user-visible records after the request; covers delete-range
//	                                            exactness and the puts/deletes/ranges order)
//	batch:not-atomic                           (request failed but the stored state changed)
//
// Flags beyond hx: -hostile (generate the hostile stream only), -expand (replay: turn every H op into D).
package main

import (
	"bytes"
	"context"
	"crypto/md5"
	"encoding/hex"
	"errors"
	"flag"
	"fmt"
	"net/url"
	"os"
	"path/filepath"
	"sort"
	"strconv"
	"strings"
	"time"

	"github.com/oxia-db/oxia/common/compare"
	oxtime "github.com/oxia-db/oxia/common/time"
	"github.com/oxia-db/oxia/proto"
	"github.com/oxia-db/oxia/server"
	"github.com/oxia-db/oxia/server/kv"

	"verif/harness/internal/hx"
)

const internalPrefix = "__oxia/"
const notifPrefix = "__oxia/notifications/"

// ---------------------------------------------------------------- environment: one real DB

type env struct {
	factory kv.Factory
	db      kv.DB
	ns      string
	shard   int64
	disk    bool
	dir     string
	clock   *oxtime.MockedClock
}

var envCounter int

func newEnv(shard int64, disk bool) *env {
	envCounter++
	e := &env{ns: fmt.Sprintf("ns%d", envCounter), shard: shard, disk: disk, clock: &oxtime.MockedClock{}}
	base := os.Getenv("VERIF_TMP")
	if base == "" {
		base = "/var/tmp"
	}
	e.dir = filepath.Join(base, fmt.Sprintf("h_db_%d_%d", os.Getpid(), envCounter))
	var err error
	e.factory, err = kv.NewPebbleKVFactory(&kv.FactoryOptions{DataDir: e.dir, CacheSizeMB: 1, InMemory: !disk})
	hx.Must(err)
	e.open()
	return e
}

// the trimmer is kept idle: mocked clock at 0 and a long retention (cut-off before every timestamp)
func (e *env) open() {
	var err error
	e.db, err = kv.NewDB(e.ns, e.shard, e.factory, time.Hour, e.clock)
	hx.Must(err)
}

func (e *env) close() {
	if e.db != nil {
		_ = e.db.Close()
		e.db = nil
	}
	_ = e.factory.Close()
	_ = os.RemoveAll(e.dir)
}

// ---------------------------------------------------------------- text helpers

func hexs(s string) string { return hx.Hex([]byte(s)) }
func unhexs(s string) string {
	return string(hx.UnHex(s))
}
func optI(p *int64) string {
	if p == nil {
		return "n"
	}
	return strconv.FormatInt(*p, 10)
}
func optS(p *string) string {
	if p == nil {
		return "n"
	}
	return hexs(*p)
}
func parseOptI(s string) *int64 {
	if s == "n" {
		return nil
	}
	v, err := strconv.ParseInt(s, 10, 64)
	hx.Must(err)
	return &v
}
func parseOptS(s string) *string {
	if s == "n" {
		return nil
	}
	v := unhexs(s)
	return &v
}
func join(xs []string, sep string) string {
	if len(xs) == 0 {
		return "-"
	}
	return strings.Join(xs, sep)
}
func splitList(s string, sep string) []string {
	if s == "-" {
		return nil
	}
	return strings.Split(s, sep)
}

func errKind(err error) string {
	switch {
	case errors.Is(err, kv.ErrMissingPartitionKey):
		return "missing_partition_key"
	case errors.Is(err, kv.ErrSequenceDeltaIsZero):
		return "sequence_delta_zero"
	case errors.Is(err, kv.ErrMissingSequenceDeltas):
		return "missing_sequence_deltas"
	case errors.Is(err, kv.ErrNotificationsDisabled):
		return "notifications_disabled"
	case errors.Is(err, context.Canceled):
		return "blocked"
	}
	msg := err.Error()
	switch {
	case strings.Contains(msg, "Deserialize"):
		return "deserialize"
	case strings.Contains(msg, "invalid URL escape"):
		return "bad_index_key"
	case strings.Contains(msg, "expected integer"), strings.Contains(msg, "unexpected EOF"), strings.Contains(msg, "EOF"),
		strings.Contains(msg, "strconv."), strings.Contains(msg, "unexpected newline"), strings.Contains(msg, "input does not match"):
		return "scan"
	}
	return "other"
}

func versionS(v *proto.Version) string {
	return fmt.Sprintf("%d/%d/%d/%d/%s/%s", v.VersionId, v.ModificationsCount, v.CreatedTimestamp, v.ModifiedTimestamp,
		optI(v.SessionId), optS(v.ClientIdentity))
}

func getRespS(g *proto.GetResponse) string {
	if g.Version == nil {
		s := g.Status.String()
		if g.Key != nil {
			s += "/" + hexs(*g.Key)
		}
		return s
	}
	return strings.Join([]string{g.Status.String(), optS(g.Key), hx.Hex(g.Value), versionS(g.Version), optS(g.SecondaryIndexKey)}, "/")
}

func effectiveKey(g *proto.GetResponse, requested string) string {
	if g.Key != nil {
		return *g.Key
	}
	return requested
}

func notifsS(m map[string]*proto.Notification) string {
	var xs []string
	for k, n := range m {
		s := hexs(k) + "~"
		switch n.Type {
		case proto.NotificationType_KEY_CREATED:
			s += "c" + optI(n.VersionId)
		case proto.NotificationType_KEY_MODIFIED:
			s += "m" + optI(n.VersionId)
		case proto.NotificationType_KEY_DELETED:
			s += "d"
		case proto.NotificationType_KEY_RANGE_DELETED:
			last := ""
			if n.KeyRangeLast != nil {
				last = *n.KeyRangeLast
			}
			s += "r" + hexs(last)
		}
		xs = append(xs, s)
	}
	sort.Strings(xs)
	return join(xs, "&")
}

func batchS(b *proto.NotificationBatch) string {
	return fmt.Sprintf("%d/%d/%d/%s", b.Shard, b.Offset, b.Timestamp, notifsS(b.Notifications))
}

type dumpEntry struct {
	key string
	se  *proto.StorageEntry // nil for notification batches / undecodable values
	txt string
}

// full ordered dump of the DB (iteration order of Pebble under the oxia comparer)
func (e *env) dump() []dumpEntry {
	it, err := e.db.KeyIterator()
	hx.Must(err)
	defer it.Close()
	kvit := it.(kv.KeyValueIterator)
	var res []dumpEntry
	for ok := it.SeekGE(""); ok; ok = it.Next() {
		k := it.Key()
		raw, err := kvit.Value()
		hx.Must(err)
		d := dumpEntry{key: k}
		if strings.HasPrefix(k, notifPrefix) {
			nb := &proto.NotificationBatch{}
			if err := nb.UnmarshalVT(raw); err == nil {
				d.txt = "B/" + batchS(nb)
				res = append(res, d)
				continue
			}
		}
		se := &proto.StorageEntry{}
		if err := se.UnmarshalVT(raw); err != nil {
			d.txt = "X/" + hx.Hex(raw)
			res = append(res, d)
			continue
		}
		d.se = se
		ct, mt := se.CreationTimestamp, se.ModificationTimestamp
		if k == "__oxia/term" || k == "__oxia/term-options" {
			ct, mt = 0, 0
		}
		var ix []string
		for _, si := range se.SecondaryIndexes {
			ix = append(ix, hexs(si.IndexName)+"="+hexs(si.SecondaryKey))
		}
		d.txt = strings.Join([]string{"R", hx.Hex(se.Value), strconv.FormatInt(se.VersionId, 10), strconv.FormatInt(se.ModificationsCount, 10),
			strconv.FormatUint(ct, 10), strconv.FormatUint(mt, 10), optI(se.SessionId), optS(se.ClientIdentity), optS(se.PartitionKey), join(ix, "+")}, "/")
		res = append(res, d)
	}
	return res
}

func dumpText(d []dumpEntry) string {
	xs := make([]string, len(d))
	for i, x := range d {
		xs[i] = hexs(x.key) + "=" + x.txt
	}
	return join(xs, ",")
}

// ---------------------------------------------------------------- the independent sequential reference (spec)

type refRec struct {
	value  []byte
	ver    int64
	mod    int64
	ct, mt uint64
	sess   *int64
	ident  *string
}

type refModel struct {
	recs    map[string]*refRec // every key written through requests (user keys and session keys)
	lastVer int64
	any     bool // a version has been assigned
}

func newRef() *refModel { return &refModel{recs: map[string]*refRec{}, lastVer: -1} }

func (r *refModel) sessionAlive(id int64) bool {
	_, ok := r.recs[server.SessionKey(server.SessionId(id))]
	return ok
}

func eqOptI(a, b *int64) bool { return (a == nil) == (b == nil) && (a == nil || *a == *b) }
func eqOptS(a, b *string) bool {
	return (a == nil) == (b == nil) && (a == nil || *a == *b)
}

// apply runs the request through the reference and compares with the implementation's response.
func (r *refModel) apply(o *hx.Out, req *wreq, resp *proto.WriteResponse, ts uint64, ctx string) {
	viol := func(sig, format string, a ...any) {
		o.Violation(sig, ctx+": "+fmt.Sprintf(format, a...))
	}
	if len(resp.Puts) != len(req.puts) || len(resp.Deletes) != len(req.dels) || len(resp.DeleteRanges) != len(req.ranges) {
		viol("put:response-fields", "response has %d/%d/%d entries for %d/%d/%d operations", len(resp.Puts), len(resp.Deletes), len(resp.DeleteRanges), len(req.puts), len(req.dels), len(req.ranges))
		return
	}
	for i, p := range req.puts {
		pr := resp.Puts[i]
		key := p.key
		var cur *refRec
		if len(p.deltas) > 0 {
			// sequential key: the implementation chooses the key (exactness is C16); the record is a creation
			if p.exp != nil {
				if pr.Status != proto.Status_UNEXPECTED_VERSION_ID {
					viol("put:conditional-iff", "sequence put %s with expected version answered %v", hexs(p.key), pr.Status)
				}
				continue
			}
			// C16 (c16_ref.go): a sequence that cannot be continued (non-numeric suffix, exhausted) is refused
			// with UNEXPECTED_VERSION_ID, before the session is looked at
			if out, _, _ := seqExpect(keysOfRef(r), p.key, p.deltas); (out == seqRefuse) != (pr.Status == proto.Status_UNEXPECTED_VERSION_ID) {
				viol("put:conditional-iff", "sequence put %s deltas %v answered %v (reference outcome %d)", hexs(p.key), p.deltas, pr.Status, out)
				continue
			} else if out == seqRefuse {
				continue
			}
			if p.sess != nil && !r.sessionAlive(*p.sess) {
				if pr.Status != proto.Status_SESSION_DOES_NOT_EXIST {
					viol("put:session-status", "sequence put %s in dead session %d answered %v", hexs(p.key), *p.sess, pr.Status)
				}
				continue
			}
			if pr.Status != proto.Status_OK {
				viol("put:conditional-iff", "sequence put %s answered %v", hexs(p.key), pr.Status)
				continue
			}
			if pr.Key == nil || !strings.HasPrefix(*pr.Key, p.key+"-") {
				viol("put:sequence-key-missing", "sequence put %s: response key %s", hexs(p.key), optS(pr.Key))
				continue
			}
			key = *pr.Key
		} else {
			cur = r.recs[key]
			pass := p.exp == nil || (*p.exp == -1 && cur == nil) || (cur != nil && cur.ver == *p.exp)
			if !pass {
				if pr.Status != proto.Status_UNEXPECTED_VERSION_ID {
					viol("put:conditional-iff", "put %s expected=%s current=%s answered %v", hexs(key), optI(p.exp), curVer(cur), pr.Status)
				}
				continue
			}
			if pr.Status == proto.Status_UNEXPECTED_VERSION_ID {
				viol("put:conditional-iff", "put %s expected=%s current=%s rejected", hexs(key), optI(p.exp), curVer(cur))
				continue
			}
		}
		if p.sess != nil && !r.sessionAlive(*p.sess) {
			if pr.Status != proto.Status_SESSION_DOES_NOT_EXIST {
				viol("put:session-status", "put %s in dead session %d answered %v", hexs(key), *p.sess, pr.Status)
			}
			continue
		}
		if pr.Status != proto.Status_OK || pr.Version == nil {
			viol("put:session-status", "put %s answered %v", hexs(key), pr.Status)
			continue
		}
		v := pr.Version
		if r.any && v.VersionId <= r.lastVer || v.VersionId < 0 {
			viol("put:version-not-strictly-increasing", "put %s got version %d after %d", hexs(key), v.VersionId, r.lastVer)
		}
		r.lastVer, r.any = v.VersionId, true
		nr := &refRec{value: p.value, ver: v.VersionId, mod: 0, ct: ts, mt: ts, sess: p.sess, ident: p.ident}
		if cur != nil {
			nr.mod, nr.ct = cur.mod+1, cur.ct
		}
		if v.ModificationsCount != nr.mod {
			viol("put:modcount-rule", "put %s modcount %d, expected %d", hexs(key), v.ModificationsCount, nr.mod)
		}
		if v.CreatedTimestamp != nr.ct || v.ModifiedTimestamp != nr.mt || !eqOptI(v.SessionId, p.sess) || !eqOptS(v.ClientIdentity, p.ident) {
			viol("put:response-fields", "put %s version %s, expected ct=%d mt=%d session=%s identity=%s", hexs(key), versionS(v), nr.ct, nr.mt, optI(p.sess), optS(p.ident))
		}
		if (len(p.deltas) > 0) != (pr.Key != nil) {
			viol("put:response-fields", "put %s: key in response %s", hexs(key), optS(pr.Key))
		}
		r.recs[key] = nr
	}
	for i, d := range req.dels {
		st := resp.Deletes[i].Status
		cur := r.recs[d.key]
		switch {
		case cur == nil && (d.exp == nil || *d.exp == -1):
			if st != proto.Status_KEY_NOT_FOUND {
				viol("delete:absent-not-reported-not-found", "delete of absent %s answered %v", hexs(d.key), st)
			}
		case cur == nil, d.exp != nil && cur.ver != *d.exp:
			if st != proto.Status_UNEXPECTED_VERSION_ID {
				viol("delete:conditional-iff", "delete %s expected=%s current=%s answered %v", hexs(d.key), optI(d.exp), curVer(cur), st)
			}
		default:
			if st != proto.Status_OK {
				viol("delete:conditional-iff", "delete %s expected=%s current=%s answered %v", hexs(d.key), optI(d.exp), curVer(cur), st)
			}
			delete(r.recs, d.key)
		}
	}
	for i, rg := range req.ranges {
		if resp.DeleteRanges[i].Status != proto.Status_OK {
			viol("delete-range:status", "delete-range [%s,%s) answered %v", hexs(rg.start), hexs(rg.end), resp.DeleteRanges[i].Status)
		}
		for k := range r.recs {
			if compare.CompareWithSlash([]byte(rg.start), []byte(k)) <= 0 && compare.CompareWithSlash([]byte(k), []byte(rg.end)) < 0 {
				delete(r.recs, k)
			}
		}
	}
}

func curVer(c *refRec) string {
	if c == nil {
		return "absent"
	}
	return strconv.FormatInt(c.ver, 10)
}

// compareState checks the user-visible records (and the session keys) of the DB against the reference.
func (r *refModel) compareState(o *hx.Out, d []dumpEntry, ctx string) {
	seen := 0
	for _, x := range d {
		tracked := !strings.HasPrefix(x.key, internalPrefix)
		rec, ok := r.recs[x.key]
		if !tracked && !ok {
			continue
		}
		if !ok {
			o.Violation("batch:state-differs-from-sequential-spec", fmt.Sprintf("%s: key %s present in the DB, absent in the sequential reference", ctx, hexs(x.key)))
			return
		}
		seen++
		se := x.se
		if se == nil || !bytes.Equal(se.Value, rec.value) || se.VersionId != rec.ver || se.ModificationsCount != rec.mod ||
			se.CreationTimestamp != rec.ct || se.ModificationTimestamp != rec.mt || !eqOptI(se.SessionId, rec.sess) || !eqOptS(se.ClientIdentity, rec.ident) {
			o.Violation("batch:state-differs-from-sequential-spec", fmt.Sprintf("%s: key %s is %s, reference has value=%s version=%d modcount=%d ct=%d mt=%d session=%s",
				ctx, hexs(x.key), x.txt, hx.Hex(rec.value), rec.ver, rec.mod, rec.ct, rec.mt, optI(rec.sess)))
			return
		}
	}
	if seen != len(r.recs) {
		for k := range r.recs {
			found := false
			for _, x := range d {
				if x.key == k {
					found = true
					break
				}
			}
			if !found {
				o.Violation("batch:state-differs-from-sequential-spec", fmt.Sprintf("%s: key %s absent in the DB, present in the sequential reference", ctx, hexs(k)))
				return
			}
		}
	}
}

// ---------------------------------------------------------------- requests

type putOp struct {
	key    string
	value  []byte
	exp    *int64
	sess   *int64
	ident  *string
	part   *string
	deltas []uint64
	idx    [][2]string
}
type delOp struct {
	key string
	exp *int64
}
type rangeOp struct{ start, end string }
type wreq struct {
	offset int64
	ts     uint64
	puts   []putOp
	dels   []delOp
	ranges []rangeOp
}

func (w *wreq) String() string {
	var ps, ds, rs []string
	for _, p := range w.puts {
		var de, ix []string
		for _, d := range p.deltas {
			de = append(de, strconv.FormatUint(d, 10))
		}
		for _, x := range p.idx {
			ix = append(ix, hexs(x[0])+"="+hexs(x[1]))
		}
		ps = append(ps, strings.Join([]string{hexs(p.key), hx.Hex(p.value), optI(p.exp), optI(p.sess), optS(p.ident), optS(p.part), join(de, "+"), join(ix, "+")}, ","))
	}
	for _, d := range w.dels {
		ds = append(ds, hexs(d.key)+","+optI(d.exp))
	}
	for _, r := range w.ranges {
		rs = append(rs, hexs(r.start)+","+hexs(r.end))
	}
	return fmt.Sprintf("W:%d:%d:%s:%s:%s", w.offset, w.ts, join(ps, "|"), join(ds, "|"), join(rs, "|"))
}

func parseW(f []string) *wreq {
	w := &wreq{}
	var err error
	w.offset, err = strconv.ParseInt(f[1], 10, 64)
	hx.Must(err)
	w.ts, err = strconv.ParseUint(f[2], 10, 64)
	hx.Must(err)
	for _, s := range splitList(f[3], "|") {
		t := strings.Split(s, ",")
		p := putOp{key: unhexs(t[0]), value: hx.UnHex(t[1]), exp: parseOptI(t[2]), sess: parseOptI(t[3]), ident: parseOptS(t[4]), part: parseOptS(t[5])}
		for _, d := range splitList(t[6], "+") {
			v, err := strconv.ParseUint(d, 10, 64)
			hx.Must(err)
			p.deltas = append(p.deltas, v)
		}
		for _, x := range splitList(t[7], "+") {
			nv := strings.Split(x, "=")
			p.idx = append(p.idx, [2]string{unhexs(nv[0]), unhexs(nv[1])})
		}
		w.puts = append(w.puts, p)
	}
	for _, s := range splitList(f[4], "|") {
		t := strings.Split(s, ",")
		w.dels = append(w.dels, delOp{key: unhexs(t[0]), exp: parseOptI(t[1])})
	}
	for _, s := range splitList(f[5], "|") {
		t := strings.Split(s, ",")
		w.ranges = append(w.ranges, rangeOp{unhexs(t[0]), unhexs(t[1])})
	}
	return w
}

// toProto builds a fresh request: the DB mutates it (sequence keys) and, through the StorageEntry pool,
// resets its SecondaryIndex objects and recycles its Value buffers, so nothing of it is reused afterwards.
func (w *wreq) toProto() *proto.WriteRequest {
	req := &proto.WriteRequest{}
	for _, p := range w.puts {
		pr := &proto.PutRequest{Key: p.key, Value: append([]byte(nil), p.value...), SequenceKeyDelta: append([]uint64(nil), p.deltas...)}
		if p.exp != nil {
			v := *p.exp
			pr.ExpectedVersionId = &v
		}
		if p.sess != nil {
			v := *p.sess
			pr.SessionId = &v
		}
		if p.ident != nil {
			v := *p.ident
			pr.ClientIdentity = &v
		}
		if p.part != nil {
			v := *p.part
			pr.PartitionKey = &v
		}
		for _, x := range p.idx {
			pr.SecondaryIndexes = append(pr.SecondaryIndexes, &proto.SecondaryIndex{IndexName: x[0], SecondaryKey: x[1]})
		}
		req.Puts = append(req.Puts, pr)
	}
	for _, d := range w.dels {
		dr := &proto.DeleteRequest{Key: d.key}
		if d.exp != nil {
			v := *d.exp
			dr.ExpectedVersionId = &v
		}
		req.Deletes = append(req.Deletes, dr)
	}
	for _, r := range w.ranges {
		req.DeleteRanges = append(req.DeleteRanges, &proto.DeleteRangeRequest{StartInclusive: r.start, EndExclusive: r.end})
	}
	return req
}

// ---------------------------------------------------------------- executing one op on the real DB

type runner struct {
	o       *hx.Out
	e       *env
	ref     *refModel // nil in hostile mode
	hostile bool
	caseTag string
	nreq    int
	lastOff int64
	ops     []string
	res     []string
	busy    *c12Busy // non-nil after op B: the process is busy while requests are applied (c12_busy.go)
}

func (r *runner) processWrite(req *proto.WriteRequest, off int64, ts uint64) (resp *proto.WriteResponse, err error, panicked bool) {
	defer func() {
		if x := recover(); x != nil {
			panicked = true
		}
	}()
	var cb kv.UpdateOperationCallback = server.WrapperUpdateOperationCallback
	if r.busy != nil {
		r.busy.refresh()
		cb = r.busy
	}
	resp, err = r.e.db.ProcessWrite(req, off, ts, cb)
	return
}

func statusesOf[T any](xs []T, f func(T) proto.Status) string {
	var s []string
	for _, x := range xs {
		s = append(s, f(x).String())
	}
	return join(s, ",")
}

func (r *runner) execWrite(w *wreq) string {
	r.nreq++
	ctx := fmt.Sprintf("%s request#%d %s", r.caseTag, r.nreq, w.String())
	var before string
	if r.ref != nil {
		before = dumpText(r.e.dump())
	}
	resp, err, panicked := r.processWrite(w.toProto(), w.offset, w.ts)
	r.lastOff = w.offset
	if panicked {
		r.o.Count("write:panic")
		return "panic"
	}
	if err != nil {
		r.o.Count("write:err:" + errKind(err))
		if r.ref != nil {
			if after := dumpText(r.e.dump()); after != before {
				r.o.Violation("batch:not-atomic", ctx+": request failed ("+err.Error()+") but the stored state changed")
			}
		}
		if r.hostile {
			return "err"
		}
		return "err:" + errKind(err)
	}
	r.o.Count("write:ok")
	if r.ref != nil {
		r.ref.apply(r.o, w, resp, w.ts, ctx)
		r.ref.compareState(r.o, r.e.dump(), ctx)
	}
	var ps []string
	for _, p := range resp.Puts {
		switch {
		case r.hostile:
			ps = append(ps, p.Status.String())
		case p.Status == proto.Status_OK && p.Version != nil:
			ps = append(ps, "OK/"+versionS(p.Version)+"/"+optS(p.Key))
		default:
			ps = append(ps, p.Status.String())
		}
	}
	return "ok:" + join(ps, ",") + ":" + statusesOf(resp.Deletes, func(d *proto.DeleteResponse) proto.Status { return d.Status }) +
		":" + statusesOf(resp.DeleteRanges, func(d *proto.DeleteRangeResponse) proto.Status { return d.Status })
}

func cmpType(s string) proto.KeyComparisonType {
	v, err := strconv.Atoi(s)
	hx.Must(err)
	return proto.KeyComparisonType(v)
}

func guard(f func() string) (res string) {
	defer func() {
		if x := recover(); x != nil {
			res = "panic"
		}
	}()
	return f()
}

func (r *runner) exec(op string) string {
	f := strings.Split(op, ":")
	db := r.e.db
	switch f[0] {
	case "W":
		return r.execWrite(parseW(f))
	case "G":
		return guard(func() string {
			g, err := db.Get(&proto.GetRequest{Key: unhexs(f[2]), ComparisonType: cmpType(f[1]), IncludeValue: f[3] == "1"})
			if err != nil {
				return "err:" + errKind(err)
			}
			if k := effectiveKey(g, unhexs(f[2])); g.Version != nil && (k == "__oxia/term" || k == "__oxia/term-options") {
				g.Version.CreatedTimestamp, g.Version.ModifiedTimestamp = 0, 0 // wall clock (UpdateTerm)
			}
			return getRespS(g)
		})
	case "L":
		return guard(func() string {
			it, err := db.List(&proto.ListRequest{StartInclusive: unhexs(f[1]), EndExclusive: unhexs(f[2])})
			if err != nil {
				return "err:" + errKind(err)
			}
			defer it.Close()
			var ks []string
			for ; it.Valid(); it.Next() {
				ks = append(ks, hexs(it.Key()))
			}
			return join(ks, ",")
		})
	case "S":
		return guard(func() string {
			it, err := db.RangeScan(&proto.RangeScanRequest{StartInclusive: unhexs(f[1]), EndExclusive: unhexs(f[2])})
			if err != nil {
				return "err:" + errKind(err)
			}
			defer it.Close()
			var xs []string
			for ; it.Valid(); it.Next() {
				g, err := it.Value()
				if err != nil {
					return "err:" + errKind(err)
				}
				xs = append(xs, hexs(g.GetKey())+"="+hx.Hex(g.Value)+"/"+versionS(g.Version))
			}
			return join(xs, ",")
		})
	case "N":
		return guard(func() string {
			from, err := strconv.ParseInt(f[1], 10, 64)
			hx.Must(err)
			ctx, cancel := context.WithCancel(context.Background())
			cancel() // never wait: a read that would block reports err:blocked
			bs, err := db.ReadNextNotifications(ctx, from)
			if err != nil {
				return "err:" + errKind(err)
			}
			var xs []string
			for _, b := range bs {
				xs = append(xs, batchS(b))
			}
			return join(xs, ",")
		})
	case "T":
		term, err := strconv.ParseInt(f[1], 10, 64)
		hx.Must(err)
		if err := db.UpdateTerm(term, kv.TermOptions{NotificationsEnabled: f[2] == "1"}); err != nil {
			return "err:" + errKind(err)
		}
		return "ok"
	case "E":
		db.EnableNotifications(f[1] == "1")
		return "ok"
	case "B":
		seed, err := strconv.ParseUint(f[1], 10, 64)
		hx.Must(err)
		if r.busy == nil {
			r.busy = newC12Busy(r, seed)
		}
		return "ok"
	case "R":
		if !r.e.disk {
			panic("R op on an in-memory case")
		}
		hx.Must(r.e.db.Close())
		var err error
		r.e.db, err = kv.NewDB(r.e.ns, r.e.shard, r.e.factory, time.Hour, r.e.clock)
		if err != nil {
			return "err:" + errKind(err)
		}
		return "ok"
	case "C":
		v, err := db.ReadCommitOffset()
		if err != nil {
			return "err:" + errKind(err)
		}
		return strconv.FormatInt(v, 10)
	case "D":
		return dumpText(r.e.dump())
	case "H":
		sum := md5.Sum([]byte(dumpText(r.e.dump())))
		return hex.EncodeToString(sum[:])
	case "IG":
		return guard(func() string {
			name := unhexs(f[1])
			g, err := server.VerifSecondaryIndexGet(&proto.GetRequest{Key: unhexs(f[3]), ComparisonType: cmpType(f[2]), IncludeValue: f[4] == "1", SecondaryIndexName: &name}, db)
			if err != nil {
				return "err:" + errKind(err)
			}
			return getRespS(g)
		})
	case "IL":
		return guard(func() string {
			name := unhexs(f[1])
			it, err := server.VerifSecondaryIndexList(&proto.ListRequest{StartInclusive: unhexs(f[2]), EndExclusive: unhexs(f[3]), SecondaryIndexName: &name}, db)
			if err != nil {
				return "err:" + errKind(err)
			}
			defer it.Close()
			var ks []string
			for ; it.Valid(); it.Next() {
				ks = append(ks, hexs(it.Key()))
			}
			return join(ks, ",")
		})
	case "IS":
		return guard(func() string {
			name := unhexs(f[1])
			it, err := server.VerifSecondaryIndexRangeScan(&proto.RangeScanRequest{StartInclusive: unhexs(f[2]), EndExclusive: unhexs(f[3]), SecondaryIndexName: &name}, db)
			if err != nil {
				return "err:" + errKind(err)
			}
			defer it.Close()
			var xs []string
			for ; it.Valid(); it.Next() {
				g, err := it.Value()
				if err != nil {
					return "err:" + errKind(err)
				}
				xs = append(xs, getRespS(g))
			}
			return join(xs, ",")
		})
	}
	panic("unknown op " + op)
}

// do executes one op and records it in the case under construction.
func (r *runner) do(op string) string {
	res := r.exec(op)
	r.ops = append(r.ops, op)
	r.res = append(r.res, res)
	return res
}

// runCase opens a fresh DB, lets [body] drive it through r.do, and records the case
// ("<shard> <threshold> <ops>" is what the model reads).
func runCase(o *hx.Out, kind string, shard int64, disk bool, tag string, ntKey string, body func(r *runner)) {
	e := newEnv(shard, disk)
	r := &runner{o: o, e: e, hostile: kind == "hseq", caseTag: tag, lastOff: -1}
	defer func() {
		r.e.close()
		if r.busy != nil {
			r.busy.close()
		}
	}()
	if kind == "seq" {
		r.ref = newRef()
	}
	body(r)
	o.Case(kind, fmt.Sprintf("%d %d %s", shard, kv.DeleteRangeThreshold, strings.Join(r.ops, ";")), strings.Join(r.res, ";"), ntKey)
}

// ---------------------------------------------------------------- pure helper cases

func runPure(o *hx.Out, fn string, args []string) {
	var res string
	switch fn {
	case "esc":
		res = hexs(url.PathEscape(unhexs(args[0])))
	case "unesc":
		s, err := url.PathUnescape(unhexs(args[0]))
		if err != nil {
			res = "err"
		} else {
			res = hexs(s)
		}
	case "hex16":
		v, _ := strconv.ParseInt(args[0], 10, 64)
		res = hexs(fmt.Sprintf("%016x", v))
	case "pad20":
		v, _ := strconv.ParseUint(args[0], 10, 64)
		res = hexs(fmt.Sprintf("%020d", v))
	case "dec":
		v, _ := strconv.ParseInt(args[0], 10, 64)
		res = hexs(fmt.Sprintf("%d", v))
	case "scan20":
		var v uint64
		if _, err := fmt.Sscanf(unhexs(args[0]), "%020d", &v); err != nil {
			res = "err"
		} else {
			res = strconv.FormatUint(v, 10)
		}
	case "scanint":
		var v int64
		if _, err := fmt.Sscanf(unhexs(args[0]), "%d", &v); err != nil {
			res = "err"
		} else {
			res = strconv.FormatInt(v, 10)
		}
	case "cmp":
		res = strconv.Itoa(compare.CompareWithSlash(hx.UnHex(args[0]), hx.UnHex(args[1])))
	default:
		panic("unknown pure fn " + fn)
	}
	o.Case("pure", fn+" "+strings.Join(args, " "), res, fn+"|"+strings.Join(args, " "))
	o.Count("pure:" + fn)
}

// ---------------------------------------------------------------- replay

func replayLine(o *hx.Out, line string, expand bool) {
	t := strings.Fields(line)
	switch t[0] {
	case "seq", "hseq":
		// <kind> <id> <shard> <thr> <ops>
		shard, err := strconv.ParseInt(t[2], 10, 64)
		hx.Must(err)
		ops := strings.Split(t[4], ";")
		disk := false
		for i, op := range ops {
			if op == "R" {
				disk = true
			}
			if expand && op == "H" {
				ops[i] = "D"
			}
		}
		runCase(o, t[0], shard, disk, "replay", "", func(r *runner) {
			for _, op := range ops {
				r.do(op)
			}
		})
	case "pure":
		runPure(o, t[2], t[3:])
	default:
		if h, ok := replayKinds[t[0]]; ok {
			h(o, t)
		}
	}
}

// Extension points for the other properties built on this harness (C06, C13-C17): a file cXX_*.go registers,
// in its init(), a generator under a -mode name and/or a replay handler for its own case kinds.
var modes = map[string]func(o *hx.Out, f hx.Flags){}
var replayKinds = map[string]func(o *hx.Out, fields []string){}

func main() {
	hostile := flag.Bool("hostile", false, "generate the hostile request stream (class-only comparison)")
	expand := flag.Bool("expand", false, "with -replay: replace every H (dump digest) op by D (full dump)")
	mode := flag.String("mode", "", "run the generator registered under this name (modes map) instead of the C12/C13 streams")
	f := hx.ParseFlags()
	o := hx.NewOut(f.OutDir)
	defer o.Close()

	replay := hx.CorpusLines(f.Corpus)
	if f.Replay != "" {
		replay = hx.ReadLines(f.Replay)
	}
	for _, line := range replay {
		replayLine(o, line, *expand)
	}
	if f.Replay != "" {
		return
	}
	if *mode != "" {
		h, ok := modes[*mode]
		if !ok {
			panic("unknown -mode " + *mode)
		}
		h(o, f)
		return
	}
	t0 := time.Now()
	if *hostile {
		genHostile(o, hx.NewRng(f.Seed), f.N)
	} else {
		genPure(o, hx.NewRng(f.Seed^0x5eed), f.N)
		genValid(o, hx.NewRng(f.Seed), f.N)
	}
	el := time.Since(t0).Seconds()
	o.Extra["go_seconds"] = el
	if el > 0 {
		o.Extra["go_write_requests_per_s"] = float64(o.Stats["write:ok"]+o.Stats["write:err:missing_partition_key"]) / el
	}
}
