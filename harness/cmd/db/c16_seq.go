package main

// C16 — sequence keys and the sequence-update subscriber, on the real kv.DB.
//
// -mode c16seq   `seq` cases (grammar of main.go: every response, a digest of the full dump after nearly every
//                request, compared with the model) made of sequence puts: deltas from {1, 2, 10^19, 2^63, 2^64-2,
//                2^64-1} and random, 1-3 parts, prefixes containing '-' and '/', several per batch, mixed with
//                other writes, deletes of generated keys and (sometimes) plain keys written under the prefix.
//                spec verdicts, from an independent reference (c16_ref.go) run on the keys the DB held before
//                the request and the keys the batch has created so far:
//                  seq:overwrote-existing   the reported key held a record already
//                  seq:key-not-greater      the reported key is not greater than an existing key of the prefix (below prefix-MAX)
//                  seq:wrong-arithmetic     the reported key is not prefix + "-%020d"(current suffix + delta), or a put was
//                                           refused / accepted against the reference (overflow, non-numeric suffix, key in the way)
// -mode c16sub   `sub` cases: forced schedules of one writer, one GetSequenceUpdates call and the receiver
//	sub <id> <shard> <thr> <prefix> <step>;<step>;...
//	    W:<write op>    ProcessWrite completely                                   -> ok:<key|n> | err
//	    A:<write op>    ProcessWrite in a goroutine, held inside OnPut (the key is generated, nothing committed) -> ok
//	    C               let it go on until batch.Commit returned, or until it failed -> committed | dropped
//	    P               wait for that ProcessWrite to return (SequenceUpdated done) -> ok
//	    S               GetSequenceUpdates(prefix) completely                      -> ok
//	    SR              GetSequenceUpdates in a goroutine, held when it has read the DB (iterator.Valid) -> ok
//	    SW              let it return                                               -> ok
//	    E:<0|1>         db.EnableNotifications                                      -> ok
//	    R               non-blocking receive on the waiter's channel               -> <key> | -
//	    D               receive until nothing is buffered                          -> <key>,<key>,... | -
//	  spec verdict at the end of a case (nothing in progress): seq:subscriber-saw-uncommitted-or-stale if the last value
//	  received is not the highest key of the prefix in the DB, or any received value is not a key of the DB.

import (
	"fmt"
	"math"
	"strconv"
	"strings"
	"sync"
	"time"

	"github.com/oxia-db/oxia/common/compare"
	oxtime "github.com/oxia-db/oxia/common/time"
	"github.com/oxia-db/oxia/proto"
	"github.com/oxia-db/oxia/server"
	"github.com/oxia-db/oxia/server/kv"

	"verif/harness/internal/hx"
	"verif/harness/internal/kvsafe"
)

func init() {
	modes["c16seq"] = c16SeqMain
	modes["c16sub"] = c16SubMain
	replayKinds["sub"] = func(o *hx.Out, t []string) {
		shard, err := strconv.ParseInt(t[2], 10, 64)
		hx.Must(err)
		c16SubCase(o, shard, unhexs(t[4]), "replay", "", func(s *subEnv) {
			for _, st := range strings.Split(t[5], ";") {
				s.do(st)
			}
		})
	}
}

// prefixes that sort on either side of the comparer-stressing keys (c16Ordinary) in the slash order AND in the bytewise
// order of their first 8 bytes (what Pebble's batch skiplist looks at first)
var c16Prefixes = []string{"s", "q/x", "s-0", "t-", "a/b-c", "m/n/o", "z", "orders-seq", "/orders/seq", "zz", "A"}

// ordinary keys written in the same request as a sequence put: first segments of 8-11 bytes with a later '/', the same
// 8-byte prefixes with and without '/', neighbours below '/' (gen.go: stressKeys), next to a few short ones
var c16Ordinary = append([]string{"accounts/alice", "accounts/bob/x", "accounts", "ordersXseq/1", "orders-seq/1", "orders-se/q", "Aaaaaaaaa/x", "zzzzzzzzy/x",
	"a", "b", "r", "s+", "q/w", "zz", "s", "t"}, stressKeys...)
var c16Deltas = []uint64{1, 1, 1, 2, 2, 3, 10000000000000000000, 1 << 63, math.MaxUint64 - 1, math.MaxUint64}

func c16Delta(rng *hx.Rng, first bool) uint64 {
	if rng.Chance(15) {
		return rng.U64() >> uint(rng.Intn(64))
	}
	d := hx.Pick(rng, c16Deltas)
	if !first && rng.Chance(15) {
		d = 0
	}
	return d
}

// ---------------------------------------------------------------- c16seq

// keys currently in the DB (all of them, internal ones included: FindLower sees them all)
func (e *env) allKeys() map[string]bool {
	res := map[string]bool{}
	for _, d := range e.dump() {
		res[d.key] = true
	}
	return res
}

func keysOfSet(m map[string]bool) func(yield func(string)) {
	return func(yield func(string)) {
		for k := range m {
			yield(k)
		}
	}
}

// c16Check evaluates the sequence puts of one request against the reference.
func c16Check(o *hx.Out, ctx string, before map[string]bool, w *wreq, res string) {
	if !strings.HasPrefix(res, "ok:") {
		return
	}
	prs := splitList(strings.Split(res, ":")[1], ",")
	if len(prs) != len(w.puts) {
		return
	}
	keys := map[string]bool{}
	for k := range before {
		keys[k] = true
	}
	for i, p := range w.puts {
		f := strings.Split(prs[i], "/")
		status := f[0]
		if len(p.deltas) == 0 {
			if status == "OK" {
				keys[p.key] = true
			}
			continue
		}
		if p.exp != nil || p.part == nil {
			continue // refused for reasons that are not C16's
		}
		out, want, _ := seqExpect(keysOfSet(keys), p.key, p.deltas)
		if out == seqFewer || out == seqZeroHead {
			continue // the whole request fails: not reached (res would be err)
		}
		got := ""
		if status == "OK" && len(f) >= 8 && f[7] != "n" {
			got = unhexs(f[7])
		}
		switch {
		case got != "":
			o.Count("c16:seq-put-ok")
			if keys[got] {
				o.Violation("seq:overwrote-existing", fmt.Sprintf("%s: put #%d on prefix %s deltas %v was given key %s, which held a record", ctx, i, hexs(p.key), p.deltas, hexs(got)))
			}
			maxKey := p.key + "-" + maxSeqText
			for k := range keys {
				if strings.HasPrefix(k, p.key) && compare.CompareWithSlash([]byte(k), []byte(maxKey)) < 0 &&
					compare.CompareWithSlash([]byte(got), []byte(k)) <= 0 {
					o.Violation("seq:key-not-greater", fmt.Sprintf("%s: put #%d on prefix %s deltas %v was given key %s, existing key %s is not below it", ctx, i, hexs(p.key), p.deltas, hexs(got), hexs(k)))
					break
				}
			}
			if out != seqKey || got != want {
				o.Violation("seq:wrong-arithmetic", fmt.Sprintf("%s: put #%d on prefix %s deltas %v was given key %s, the reference says %s (outcome %d)", ctx, i, hexs(p.key), p.deltas, hexs(got), hexs(want), out))
			}
			keys[got] = true
		case status == "UNEXPECTED_VERSION_ID":
			o.Count("c16:seq-put-refused")
			if out != seqRefuse {
				o.Violation("seq:wrong-arithmetic", fmt.Sprintf("%s: put #%d on prefix %s deltas %v was refused, the reference says key %s", ctx, i, hexs(p.key), p.deltas, hexs(want)))
			}
		case status == "SESSION_DOES_NOT_EXIST":
			if out == seqRefuse {
				o.Violation("seq:wrong-arithmetic", fmt.Sprintf("%s: put #%d on prefix %s deltas %v answered %s, the reference says the sequence cannot be continued", ctx, i, hexs(p.key), p.deltas, status))
			}
		}
	}
}

func c16SeqMain(o *hx.Out, f hx.Flags) {
	rng := hx.NewRng(f.Seed ^ 0x16)
	for c := 0; c < f.N; c++ {
		crng := rng.Fork()
		shard := int64(1 + crng.Intn(9))
		tag := fmt.Sprintf("c16seq#%d", c)
		dirty := crng.Chance(20) // plain keys get written under the prefixes
		big := crng.Chance(35)   // huge deltas appear
		runCase(o, "seq", shard, false, tag, fmt.Sprintf("%d", crng.U64()), func(r *runner) {
			off, ts := int64(-1), uint64(1000+crng.Intn(1000))
			arity := map[string]int{}
			var generated []string
			nreq := 15 + crng.Intn(25)
			for i := 0; i < nreq; i++ {
				w := &wreq{}
				for j, np := 0, 1+crng.Intn(3); j < np; j++ {
					switch x := crng.Intn(100); {
					case x < 75: // sequence put
						p := putOp{key: hx.Pick(crng, c16Prefixes), value: []byte(hx.Pick(crng, values)), part: pstr(hx.Pick(crng, []string{"pk", "pk", "pk", ""}))}
						n := arity[p.key]
						if n == 0 {
							n = 1 + crng.Intn(3)
						} else if crng.Chance(10) && n < 3 {
							n++
						}
						arity[p.key] = n
						for k := 0; k < n; k++ {
							d := uint64(1 + crng.Intn(4))
							if big || crng.Chance(5) {
								d = c16Delta(crng, k == 0)
							}
							if k > 0 && crng.Chance(10) {
								d = 0
							}
							p.deltas = append(p.deltas, d)
						}
						if crng.Chance(10) {
							p.idx = [][2]string{{"a", "k"}}
						}
						w.puts = append(w.puts, p)
						o.Count("c16:seq-put")
					case x < 90: // other writes, elsewhere
						w.puts = append(w.puts, putOp{key: hx.Pick(crng, c16Ordinary), value: []byte("v")})
					default:
						if dirty {
							pre := hx.Pick(crng, c16Prefixes)
							w.puts = append(w.puts, putOp{key: pre + hx.Pick(crng, []string{"-7", "-0x", "--", "-00000000000000000002", "-00000000000000000003x", "-9", "-+"}), value: []byte("v")})
							o.Count("c16:plain-key-under-prefix")
						}
					}
				}
				if crng.Chance(35) {
					// 1-3 ordinary puts BEFORE the sequence puts of the request (and one after): FindLower then runs on a
					// batch that already holds them
					var pre []putOp
					for j, n := 0, 1+crng.Intn(3); j < n; j++ {
						pre = append(pre, putOp{key: hx.Pick(crng, c16Ordinary), value: []byte("o")})
					}
					w.puts = append(append(pre, w.puts...), putOp{key: hx.Pick(crng, c16Ordinary), value: []byte("o")})
					o.Count("c16:ordinary-puts-around-sequence-put")
				}
				if len(generated) > 0 && crng.Chance(15) {
					w.dels = append(w.dels, delOp{key: hx.Pick(crng, generated)})
					o.Count("c16:delete-generated")
				}
				if len(w.puts)+len(w.dels) == 0 {
					continue
				}
				off++
				ts += uint64(1 + crng.Intn(9))
				w.offset, w.ts = off, ts
				before := r.e.allKeys()
				res := r.do(w.String())
				c16Check(o, fmt.Sprintf("%s request#%d %s", tag, i, w.String()), before, w, res)
				if strings.HasPrefix(res, "ok:") {
					for _, pr := range splitList(strings.Split(res, ":")[1], ",") {
						if f := strings.Split(pr, "/"); len(f) >= 8 && f[7] != "n" {
							generated = append(generated, unhexs(f[7]))
						}
					}
				}
				if crng.Chance(70) {
					r.do("H")
				}
			}
			r.do("D")
		})
	}
}

// ---------------------------------------------------------------- c16sub: gates

type gate struct {
	mu      sync.Mutex
	armed   bool
	entered chan struct{}
	release chan struct{}
}

func (g *gate) arm() {
	g.mu.Lock()
	g.armed, g.entered, g.release = true, make(chan struct{}), make(chan struct{})
	g.mu.Unlock()
}

// pass blocks the caller if the gate is armed (once)
func (g *gate) pass() {
	g.mu.Lock()
	if !g.armed {
		g.mu.Unlock()
		return
	}
	g.armed = false
	en, re := g.entered, g.release
	g.mu.Unlock()
	close(en)
	<-re
}

type c16Factory struct {
	kv.Factory
	s *subEnv
}

func (f *c16Factory) NewKV(ns string, shard int64) (kv.KV, error) {
	k, err := f.Factory.NewKV(ns, shard)
	if err != nil {
		return nil, err
	}
	return &c16KV{KV: k, s: f.s}, nil
}

type c16KV struct {
	kv.KV
	s *subEnv
}

func (k *c16KV) NewWriteBatch() kv.WriteBatch {
	return &c16Batch{WriteBatch: k.KV.NewWriteBatch(), s: k.s}
}
func (k *c16KV) KeyRangeScanReverse(lo, hi string) (kv.ReverseKeyIterator, error) {
	it, err := k.KV.KeyRangeScanReverse(lo, hi)
	if err != nil {
		return nil, err
	}
	return &c16RevIt{ReverseKeyIterator: it, s: k.s}, nil
}

type c16Batch struct {
	kv.WriteBatch
	s *subEnv
}

func (b *c16Batch) Commit() error {
	err := b.WriteBatch.Commit()
	b.s.commits <- err
	return err
}

type c16RevIt struct {
	kv.ReverseKeyIterator
	s *subEnv
}

// the iterator is a snapshot taken when it was created: what Valid/Key return is what the DB held then
func (it *c16RevIt) Valid() bool {
	v := it.ReverseKeyIterator.Valid()
	it.s.itGate.pass()
	return v
}

type c16Callback struct {
	kv.UpdateOperationCallback
	s *subEnv
}

func (c *c16Callback) OnPut(b kv.WriteBatch, r *proto.PutRequest, se *proto.StorageEntry) (proto.Status, error) {
	if len(r.SequenceKeyDelta) > 0 {
		c.s.putGate.pass() // the key has been generated (r.Key), nothing is committed
	}
	return c.UpdateOperationCallback.OnPut(b, r, se)
}

type writeResult struct {
	resp *proto.WriteResponse
	err  error
}

type subEnv struct {
	o       *hx.Out
	tag     string
	prefix  string
	factory kv.Factory
	db      kv.DB
	cb      *c16Callback
	putGate gate
	itGate  gate
	commits chan error
	wDone   chan writeResult
	sDone   chan error
	sw      kv.SequenceWaiter
	got     []string
	ops     []string
	res     []string
	busyW   bool
	busyS   bool
	timeout bool
}

const c16Wait = 3 * time.Second

func (s *subEnv) write(w *wreq) writeResult {
	resp, err := s.db.ProcessWrite(w.toProto(), w.offset, w.ts, s.cb)
	return writeResult{resp, err}
}

func seqKeyOf(res writeResult) string {
	if res.err != nil {
		return "err"
	}
	for _, p := range res.resp.Puts {
		if p.Key != nil {
			return "ok:" + hexs(*p.Key)
		}
	}
	return "ok:n"
}

func (s *subEnv) do(step string) string {
	f := strings.Split(step, ":")
	res := "ok"
	fail := func(what string) string {
		s.timeout = true
		s.o.Violation("seq:subscriber-schedule-stuck", fmt.Sprintf("%s: step %q of [%s]: %s", s.tag, step, strings.Join(s.ops, ";"), what))
		return "timeout"
	}
	switch f[0] {
	case "W":
		for len(s.commits) > 0 {
			<-s.commits
		}
		res = seqKeyOf(s.write(parseW(f)))
		for len(s.commits) > 0 {
			<-s.commits
		}
	case "A":
		w := parseW(f[1:])
		s.putGate.arm()
		s.busyW = true
		go func() { s.wDone <- s.write(w) }()
		select {
		case <-s.putGate.entered:
		case r := <-s.wDone: // the request failed before any OnPut
			s.wDone <- r
		case <-time.After(c16Wait):
			res = fail("the write neither reached OnPut nor returned")
		}
	case "C":
		select {
		case <-s.putGate.release:
		default:
			close(s.putGate.release)
		}
		committed := func(err error) string {
			if err != nil {
				return "dropped"
			}
			return "committed"
		}
		select {
		case err := <-s.commits:
			res = committed(err)
		case r := <-s.wDone:
			s.wDone <- r
			// the write is over: it committed iff Commit was reached
			select {
			case err := <-s.commits:
				res = committed(err)
			default:
				res = "dropped"
			}
		case <-time.After(c16Wait):
			res = fail("the write neither committed nor failed")
		}
	case "P":
		select {
		case <-s.wDone:
			s.busyW = false
		case <-time.After(c16Wait):
			res = fail("ProcessWrite did not return")
		}
	case "E":
		s.db.EnableNotifications(f[1] == "1")
	case "S":
		sw, err := s.db.GetSequenceUpdates(s.prefix)
		hx.Must(err)
		s.sw = sw
	case "SR":
		s.itGate.arm()
		s.busyS = true
		go func() {
			sw, err := s.db.GetSequenceUpdates(s.prefix)
			s.sw = sw
			s.sDone <- err
		}()
		select {
		case <-s.itGate.entered:
		case <-time.After(c16Wait):
			res = fail("GetSequenceUpdates did not read the DB")
		}
	case "SW":
		close(s.itGate.release)
		select {
		case err := <-s.sDone:
			hx.Must(err)
			s.busyS = false
		case <-time.After(c16Wait):
			res = fail("GetSequenceUpdates did not return")
		}
	case "R", "D":
		var vals []string
		for s.sw != nil {
			select {
			case v := <-s.sw.Ch():
				vals = append(vals, hexs(v))
				s.got = append(s.got, v)
				if f[0] == "D" {
					continue
				}
			default:
			}
			break
		}
		res = join(vals, ",")
	default:
		panic("sub: unknown step " + step)
	}
	s.ops = append(s.ops, step)
	s.res = append(s.res, res)
	return res
}

// finish: release whatever is still held, then the verdict
func (s *subEnv) finish() {
	if s.busyW {
		select {
		case <-s.putGate.release:
		default:
			close(s.putGate.release)
		}
	}
	if s.busyS {
		select {
		case <-s.itGate.release:
		default:
			close(s.itGate.release)
		}
		select {
		case <-s.sDone:
		case <-time.After(c16Wait):
		}
	}
	if s.busyW {
		select {
		case <-s.wDone:
		case <-time.After(c16Wait):
		}
	}
	if s.timeout || s.sw == nil {
		return
	}
	for {
		select {
		case v := <-s.sw.Ch():
			s.got = append(s.got, v)
			continue
		default:
		}
		break
	}
	// the keys of the prefix in the committed DB
	it, err := s.db.KeyIterator()
	hx.Must(err)
	inDB := map[string]bool{}
	highest := ""
	maxKey := s.prefix + "-" + maxSeqText
	for ok := it.SeekGE(""); ok; ok = it.Next() {
		k := it.Key()
		inDB[k] = true
		if strings.HasPrefix(k, s.prefix+"-") && compare.CompareWithSlash([]byte(k), []byte(maxKey)) < 0 {
			if highest == "" || compare.CompareWithSlash([]byte(k), []byte(highest)) > 0 {
				highest = k
			}
		}
	}
	it.Close()
	ctx := fmt.Sprintf("%s prefix %s schedule [%s]", s.tag, hexs(s.prefix), strings.Join(s.ops, ";"))
	for _, v := range s.got {
		if !inDB[v] {
			s.o.Violation("seq:subscriber-saw-uncommitted-or-stale", fmt.Sprintf("%s: the subscriber received %q, which is not a key of the DB", ctx, v))
			return
		}
	}
	last := ""
	if len(s.got) > 0 {
		last = s.got[len(s.got)-1]
	}
	if last != highest {
		s.o.Violation("seq:subscriber-saw-uncommitted-or-stale", fmt.Sprintf("%s: nothing is in progress, the subscriber's last value is %q, the highest key of the prefix in the DB is %q", ctx, last, highest))
	}
}

var c16EnvCounter int

func c16SubCase(o *hx.Out, shard int64, prefix string, tag string, ntKey string, body func(s *subEnv)) {
	c16EnvCounter++
	s := &subEnv{o: o, tag: tag, prefix: prefix, commits: make(chan error, 64), wDone: make(chan writeResult, 2), sDone: make(chan error, 2)}
	inner, err := kvsafe.New(&kv.FactoryOptions{DataDir: "/nonexistent-c16", CacheSizeMB: 1, InMemory: true})
	hx.Must(err)
	s.factory = &c16Factory{Factory: inner, s: s}
	s.db, err = kv.NewDB(fmt.Sprintf("c16ns%d", c16EnvCounter), shard, s.factory, time.Hour, &oxtime.MockedClock{})
	hx.Must(err)
	s.cb = &c16Callback{UpdateOperationCallback: server.WrapperUpdateOperationCallback, s: s}
	body(s)
	s.finish()
	_ = s.db.Close()
	_ = inner.Close()
	o.Case("sub", fmt.Sprintf("%d %d %s %s", shard, kv.DeleteRangeThreshold, hexs(prefix), strings.Join(s.ops, ";")), strings.Join(s.res, ";"), ntKey)
}

func c16SubMain(o *hx.Out, f hx.Flags) {
	rng := hx.NewRng(f.Seed ^ 0x1616)
	c16MultiGen(o, hx.NewRng(f.Seed^0x16aa), f.N/3+1) // several subscribers, subscribe / close in any order (c16_multi.go)
	for c := 0; c < f.N; c++ {
		crng := rng.Fork()
		shard := int64(1 + crng.Intn(9))
		prefix := hx.Pick(crng, c16Prefixes)
		c16SubCase(o, shard, prefix, fmt.Sprintf("c16sub#%d", c), fmt.Sprintf("%d", crng.U64()), func(s *subEnv) {
			off, ts := int64(-1), uint64(1000)
			nd := 1 + crng.Intn(2)
			mkWrite := func(fails bool) string {
				w := &wreq{}
				p := putOp{key: prefix, value: []byte("v"), part: pstr("pk")}
				for k := 0; k < nd; k++ {
					p.deltas = append(p.deltas, uint64(1+crng.Intn(3)))
				}
				if crng.Chance(5) {
					p.deltas[0] = math.MaxUint64 // refused: nothing is generated
				}
				if crng.Chance(30) {
					w.puts = append(w.puts, putOp{key: hx.Pick(crng, c16Ordinary), value: []byte("o")}) // before the sequence put
				}
				w.puts = append(w.puts, p)
				if crng.Chance(30) {
					w.puts = append(w.puts, putOp{key: "other", value: []byte("x")})
				}
				if fails { // the batch is dropped after the key was generated (an error ProcessWrite still has: direct call)
					w.puts = append(w.puts, putOp{key: "bad", value: []byte("x"), deltas: []uint64{1}})
				}
				off++
				ts += 3
				w.offset, w.ts = off, ts
				return w.String()
			}
			if crng.Chance(30) { // what subscribers observe must not depend on the notifications switch of the shard
				s.do("E:0")
				o.Count("c16sub:notifications-disabled")
			}
			// before the subscription
			for i, n := 0, crng.Intn(3); i < n; i++ {
				s.do(mkWrite(crng.Chance(15)))
			}
			subscribed, subHeld := false, false
			steps := 4 + crng.Intn(8)
			for i := 0; i < steps; i++ {
				switch x := crng.Intn(100); {
				case !subscribed && !subHeld && x < 35:
					if crng.Bool() {
						s.do("S")
						subscribed = true
					} else {
						s.do("SR")
						subHeld = true
					}
					o.Count("c16sub:subscribe")
				case subHeld && x < 30:
					s.do("SW")
					subHeld, subscribed = false, true
				case x < 55: // a write held between key generation and commit
					fails := crng.Chance(20)
					s.do("A:" + mkWrite(fails))
					o.Count("c16sub:held-write")
					if !subscribed && !subHeld && crng.Chance(50) {
						// the subscription happens while the write is open
						if crng.Bool() {
							s.do("S")
							subscribed = true
						} else {
							s.do("SR")
							subHeld = true
						}
						o.Count("c16sub:subscribe-during-write")
					}
					if s.do("C") == "committed" && subHeld && crng.Chance(70) {
						// the registration race: committed (and, before the repair, notified) between the
						// subscriber's read and its initial write
						s.do("SW")
						subHeld, subscribed = false, true
						o.Count("c16sub:commit-between-read-and-initial-write")
					}
					if subHeld {
						s.do("SW")
						subHeld, subscribed = false, true
					}
					s.do("P")
				case x < 80:
					if subHeld {
						s.do("SW")
						subHeld, subscribed = false, true
					}
					s.do(mkWrite(crng.Chance(10)))
				default:
					if subscribed {
						s.do(hx.Pick(crng, []string{"R", "D"}))
					}
				}
			}
			if subHeld {
				s.do("SW")
			}
			if !subscribed && !subHeld {
				s.do("S") // a subscription after everything: the initial value alone
			}
			s.do("D")
		})
	}
}
