package main

// C06 (-mode c06ctl), route CL: controller-level lifecycles.
//
// A node whose WAL is ahead of its DB (a follower appended the whole committed log but applied only a prefix)
// goes through a seed-chosen sequence of role events, on the SAME LeaderController object where the real system
// keeps the object and on re-created ones where it re-creates it:
//
//	elect              NewTerm(t+1) + BecomeLeader (replication factor 1): applyAllEntriesIntoDB applies the tail
//	elect-again        the same, with no write in between (idle shard, elections in quick succession)
//	write k            k = 1 or 3 client writes through WriteBlock
//	new-term-only      NewTerm(t+1) without BecomeLeader (the node stays fenced)
//	failed-election    NewTerm(t+1), BecomeLeader with replication factor 2 whose quorum wait is cancelled (the only
//	                   follower never acks), then BecomeLeader retried in the same term with replication factor 1
//	role-switch        leader controller closed, FollowerController on the same storage (NewTerm), closed,
//	                   a new LeaderController on the same storage (what the shards director does)
//
// After EVERY step the node's database (the controller's own DB object, reached through VerifWrapLeaderDB) is
// dumped and compared with a reference replica that applied the log - and the client writes, with the offset and
// timestamp the leader gave them - exactly once.
//
// SPEC VERDICT  determinism:routes-differ:controller-lifecycle

import (
	"context"
	"fmt"
	"strings"
	"time"

	"github.com/oxia-db/oxia/proto"
	"github.com/oxia-db/oxia/server"
	"github.com/oxia-db/oxia/server/kv"

	"verif/harness/internal/hx"
)

type c06Lifecycle struct {
	o     *hx.Out
	lg    *c06Log
	n     *c06Node
	lc    server.LeaderController
	db    kv.DB // the leader controller's database
	ref   *env
	term  int64
	steps []string
	bad   bool
	nw    int
}

func (c *c06Lifecycle) newLeader() {
	var err error
	c.lc, err = server.NewLeaderController(c06SrvConfig, c.n.ns, c.n.shard, &c06OneFollowerRpc{}, c.n.walf, c.n.kvf)
	hx.Must(err)
	server.VerifWrapLeaderDB(c.lc, func(db kv.DB) kv.DB { c.db = db; return db })
}

func (c *c06Lifecycle) fail(format string, a ...any) {
	if c.bad {
		return
	}
	c.bad = true
	c.o.Violation("determinism:routes-differ:controller-lifecycle", fmt.Sprintf(format, a...)+fmt.Sprintf("; lifecycle: %s; %s", strings.Join(c.steps, " -> "), c.lg.text()))
}

func (c *c06Lifecycle) newTerm() bool {
	c.term++
	_, err := c.lc.NewTerm(&proto.NewTermRequest{Namespace: c.n.ns, Shard: c.n.shard, Term: c.term, Options: &proto.NewTermOptions{EnableNotifications: c.lg.en}})
	if err != nil {
		c.fail("NewTerm(%d) failed: %v", c.term, err)
		return false
	}
	return true
}

func (c *c06Lifecycle) becomeLeader(rf uint32, fm map[string]*proto.EntryId, timeout time.Duration) error {
	ctx, cancel := context.WithTimeout(context.Background(), timeout)
	defer cancel()
	_, err := c.lc.BecomeLeader(ctx, &proto.BecomeLeaderRequest{Namespace: c.n.ns, Shard: c.n.shard, Term: c.term, ReplicationFactor: rf, FollowerMaps: fm})
	return err
}

func (c *c06Lifecycle) elect() bool {
	if !c.newTerm() {
		return false
	}
	if err := c.becomeLeader(1, map[string]*proto.EntryId{}, c06StepTimeout); err != nil {
		c.fail("BecomeLeader(term %d) failed: %v", c.term, err)
		return false
	}
	return true
}

// compare the node's database with the reference that applied everything once
func (c *c06Lifecycle) compare() {
	if c.bad {
		return
	}
	hx.Must(c.ref.db.UpdateTerm(c.term, kv.TermOptions{NotificationsEnabled: c.lg.en}))
	want := dumpText(c.ref.dump())
	got := dumpText((&env{db: c.db}).dump())
	if got != want {
		c.fail("after step %d: %s (live = a replica that applied the log and the client writes once, other = the node's database)", len(c.steps), firstDiff(want, got))
	}
}

func c06RouteLifecycle(o *hx.Out, rng *hx.Rng, lg *c06Log) {
	n := newC06Node("life", lg.shard)
	defer n.close()
	nE := len(lg.entries)
	k := rng.Intn(nE) // applied by the follower; the rest is only in its WAL
	if rng.Chance(25) {
		k = nE - 1 // the usual case: the follower learns the commit offset one append late
	}
	committed := int64(-1)
	if k > 0 {
		committed = lg.entries[k-1].w.offset
	}
	c := &c06Lifecycle{o: o, lg: lg, n: n, term: 1}
	f := c06StartFollower(n, 1, lg.en, true)
	if !f.attach() {
		c06NotStarted(o, f)
		return
	}
	for _, en := range lg.entries {
		f.ls.in <- &proto.Append{Term: 1, Entry: c06LogEntry(1, en.w), CommitOffset: committed}
	}
	lastOff := lg.entries[nE-1].w.offset
	ls := f.ls
	ok := c06WaitFor(func() bool {
		ls.mu.Lock()
		defer ls.mu.Unlock()
		return ls.maxAck >= lastOff
	}) && c06WaitFor(func() bool { return f.fc.CommitOffset() >= committed })
	f.stop()
	if !ok {
		o.Count("not-started:lifecycle(follower setup did not finish in time)") // the follower route judges a follower that stops applying
		return
	}
	c.steps = append(c.steps, fmt.Sprintf("follower(term 1) appended %d entries, applied %d", nE, k))

	// the reference: the log, once
	c.ref = newEnv(lg.shard, false)
	defer c.ref.close()
	c.ref.db.EnableNotifications(lg.en)
	hx.Must(c.ref.db.UpdateTerm(1, kv.TermOptions{NotificationsEnabled: lg.en}))
	for _, en := range lg.entries {
		c06Apply(c.ref.db, en.w)
	}

	c.newLeader()
	defer func() {
		if c.lc != nil {
			_ = c.lc.Close()
		}
	}()
	leading := false
	plan := []string{"elect"}
	if k < nE && rng.Chance(25) {
		plan[0] = "failed-election" // the first election of the lagging node is the one whose quorum wait is cancelled
	}
	if rng.Chance(65) {
		plan = append(plan, "elect-again")
	}
	for i, m := 0, 1+rng.Intn(3); i < m; i++ {
		plan = append(plan, hx.Pick(rng, []string{"elect-again", "write", "write", "new-term-only", "failed-election", "role-switch"}))
	}
	for _, step := range plan {
		if c.bad {
			break
		}
		switch step {
		case "elect", "elect-again":
			c.steps = append(c.steps, fmt.Sprintf("%s(term %d)", step, c.term+1))
			leading = c.elect()
		case "write":
			if !leading {
				c.steps = append(c.steps, fmt.Sprintf("elect(term %d)", c.term+1))
				if leading = c.elect(); !leading {
					continue
				}
				c.compare()
			}
			kw := hx.Pick(rng, []int{1, 3})
			c.steps = append(c.steps, fmt.Sprintf("write x%d", kw))
			for j := 0; j < kw && !c.bad; j++ {
				c.nw++
				key := hx.Pick(rng, []string{"a", "cl/x", fmt.Sprintf("cl-%d", c.nw)})
				val := []byte(hx.Pick(rng, values))
				ctx, cancel := context.WithTimeout(context.Background(), c06StepTimeout)
				resp, err := c.lc.WriteBlock(ctx, &proto.WriteRequest{Puts: []*proto.PutRequest{{Key: key, Value: append([]byte(nil), val...)}}})
				cancel()
				if err != nil || len(resp.Puts) != 1 || resp.Puts[0].Version == nil {
					c.fail("client write of %q failed: %v", key, err)
					break
				}
				head, _, _ := server.VerifLeaderOffsets(c.lc)
				// the same entry on the reference: the offset and the timestamp the leader gave it
				_, err = c.ref.db.ProcessWrite(&proto.WriteRequest{Puts: []*proto.PutRequest{{Key: key, Value: val}}}, head, resp.Puts[0].Version.ModifiedTimestamp, server.WrapperUpdateOperationCallback)
				hx.Must(err)
			}
			o.Count("lifecycle:writes")
		case "new-term-only":
			c.steps = append(c.steps, fmt.Sprintf("new-term-only(term %d)", c.term+1))
			c.newTerm()
			leading = false
		case "failed-election":
			c.steps = append(c.steps, fmt.Sprintf("failed-election(term %d: rf 2, quorum wait cancelled; retried with rf 1)", c.term+1))
			leading = false
			if !c.newTerm() {
				continue
			}
			head, _, _ := c.lastEntry()
			if head != nil && head.Offset > 0 {
				// the follower misses the last entry and never acks it: the quorum wait ends with the context
				err := c.becomeLeader(2, map[string]*proto.EntryId{"f1": {Term: head.Term, Offset: head.Offset - 1}}, 30*time.Millisecond)
				if err == nil {
					// everything was committed already: the quorum wait had nothing to wait for. A leader with a
					// silent follower cannot commit client writes: elected again with replication factor 1
					c.steps = append(c.steps, fmt.Sprintf("(the election with the silent follower succeeded; elect(term %d))", c.term+1))
					leading = c.elect()
					break
				}
				o.Count("lifecycle:failed-election")
			}
			if err := c.becomeLeader(1, map[string]*proto.EntryId{}, c06StepTimeout); err != nil {
				c.fail("BecomeLeader retried in term %d failed: %v", c.term, err)
				continue
			}
			leading = true
		case "role-switch":
			c.steps = append(c.steps, fmt.Sprintf("role-switch(follower in term %d, new leader controller)", c.term+1))
			hx.Must(c.lc.Close())
			c.lc = nil
			c.term++
			fo := c06StartFollower(n, c.term, lg.en, true)
			fo.stop()
			c.newLeader()
			leading = false
			o.Count("lifecycle:role-switch")
		}
		o.Count("lifecycle:step:" + step)
		c.compare()
	}
	o.Count("route:controller-lifecycle")
}

// lastEntry: the head of the leader's log, from the reference of what was appended (log + client writes)
func (c *c06Lifecycle) lastEntry() (*proto.EntryId, int64, bool) {
	off := c.lg.entries[len(c.lg.entries)-1].w.offset + int64(c.nwApplied())
	term := int64(1)
	if c.nwApplied() > 0 {
		return nil, off, false // the last entry's term depends on when it was written: skip the silent-follower variant
	}
	return &proto.EntryId{Term: term, Offset: off}, off, true
}

func (c *c06Lifecycle) nwApplied() int { return c.nw }
