package main

// C14 (ephemeral records and sessions) on the DB harness: -mode c14.
//
// Cases are ordinary "seq" cases (same grammar, same model driver, same C12 reference verdicts), generated with
// session-heavy weights: session creations (the logged put of the session key), puts under live / closed / never
// created sessions, takeovers between sessions and by plain puts on a small key set, conditional and indexed
// session puts, deletes and user delete-ranges over ephemeral keys (below and above DeleteRangeThreshold),
// several operations on one key in one batch, term updates, and session ends in the two forms the server can
// produce:
//   atomic   List [SessionKey/, SessionKey//) immediately followed by the cleanup request
//   two-step List, then 1..3 requests of other clients, then the cleanup request built from the OLD listing
//            (session.delete() holds no lock between its ListBlock and its WriteBlock; sessions leg forces the same
//            schedule on the real leader controller)
//
// After every write the C14 specification is evaluated on the implementation's full dump, independently of the model:
//
//	session:shadow-mirror-broken               shadow key without matching ephemeral record / record of a live session
//	                                           without its shadow key / malformed key below a session key
//	session:dead-session-write-accepted        a put naming a session that did not exist was answered OK
//	session-cleanup:deleted-record-not-owned   a cleanup request removed a record its session did not own at that moment
//	session-cleanup:orphaned-record-of-dead-session   a record carries the id of a session that does not exist (any more)
//	session-cleanup:empty-key-record-survives  ... and that record is the one under the empty key (session.delete() skips it)
//	session-cleanup:other-record-touched / session-key-survived
//
// Sequence puts under sessions (ephemeral sequential keys) are generated in their own cases, which end sessions
// atomically only (so that nothing there can be explained by the open O-12 findings); a verdict whose key is a sequence
// prefix or a generated key carries the suffix ":sequence-put" (e.g. session:shadow-mirror-broken:sequence-put:
// the shadow entry registered under the prefix instead of the generated key).

import (
	"fmt"
	"net/url"
	"sort"
	"strconv"
	"strings"

	"github.com/oxia-db/oxia/proto"
	"github.com/oxia-db/oxia/server"

	"verif/harness/internal/hx"
)

func init() { modes["c14"] = c14Main }

const c14SessionPrefix = "__oxia/session/"

type c14Rec struct {
	txt  string
	sess *int64
}

type c14View struct {
	recs     map[string]c14Rec
	shadows  map[string]struct{} // "<id>\x00<key>"
	sessions map[int64]struct{}
	bad      []string
}

func c14ViewOf(d []dumpEntry) *c14View {
	v := &c14View{recs: map[string]c14Rec{}, shadows: map[string]struct{}{}, sessions: map[int64]struct{}{}}
	for _, x := range d {
		switch {
		case strings.HasPrefix(x.key, c14SessionPrefix):
			rest := x.key[len(c14SessionPrefix):]
			if i := strings.IndexByte(rest, '/'); i >= 0 {
				id, err := server.KeyToId(x.key[:len(c14SessionPrefix)+i])
				k, err2 := url.PathUnescape(rest[i+1:])
				if err != nil || err2 != nil || url.PathEscape(k) != rest[i+1:] {
					v.bad = append(v.bad, x.key)
					continue
				}
				v.shadows[strconv.FormatInt(int64(id), 10)+"\x00"+k] = struct{}{}
			} else if id, err := server.KeyToId(x.key); err == nil && server.SessionKey(id) == x.key {
				v.sessions[int64(id)] = struct{}{}
			} else {
				v.bad = append(v.bad, x.key)
			}
		case strings.HasPrefix(x.key, internalPrefix):
		default:
			r := c14Rec{txt: x.txt}
			if x.se != nil && x.se.SessionId != nil {
				s := *x.se.SessionId
				r.sess = &s
			}
			v.recs[x.key] = r
		}
	}
	return v
}

func (v *c14View) owned(id int64) []string {
	var ks []string
	for k, r := range v.recs {
		if r.sess != nil && *r.sess == id {
			ks = append(ks, k)
		}
	}
	sort.Strings(ks)
	return ks
}

func (v *c14View) mirror(viol func(sig, det string)) {
	for _, k := range v.bad {
		viol("session:shadow-mirror-broken", "malformed key below the session prefix: "+hexs(k))
	}
	var sks []string
	for sk := range v.shadows {
		sks = append(sks, sk)
	}
	sort.Strings(sks)
	for _, sk := range sks {
		i := strings.IndexByte(sk, 0)
		id, _ := strconv.ParseInt(sk[:i], 10, 64)
		key := sk[i+1:]
		r, ok := v.recs[key]
		if !ok || r.sess == nil || *r.sess != id {
			what := "absent"
			if ok {
				what = r.txt
			}
			viol("session:shadow-mirror-broken", fmt.Sprintf("shadow key of session %d for key %s, but the record is %s", id, hexs(key), what)+"\x01"+key)
		}
	}
	var ks []string
	for k := range v.recs {
		ks = append(ks, k)
	}
	sort.Strings(ks)
	for _, k := range ks {
		r := v.recs[k]
		if r.sess == nil {
			continue
		}
		if _, alive := v.sessions[*r.sess]; !alive {
			if k == "" {
				viol("session-cleanup:empty-key-record-survives", fmt.Sprintf("the record under the empty key carries session id %d, which does not exist: %s", *r.sess, r.txt))
			} else {
				viol("session-cleanup:orphaned-record-of-dead-session", fmt.Sprintf("record %s carries session id %d, which does not exist: %s", hexs(k), *r.sess, r.txt)+"\x01"+k)
			}
			continue
		}
		if _, ok := v.shadows[strconv.FormatInt(*r.sess, 10)+"\x00"+k]; !ok {
			viol("session:shadow-mirror-broken", fmt.Sprintf("record %s of live session %d has no shadow key", hexs(k), *r.sess)+"\x01"+k)
		}
	}
}

func c14CleanupExact(before, after *c14View, id int64, viol func(sig, det string)) {
	var ks []string
	for k := range before.recs {
		ks = append(ks, k)
	}
	sort.Strings(ks)
	for _, k := range ks {
		r := before.recs[k]
		r2, still := after.recs[k]
		ownedThen := r.sess != nil && *r.sess == id
		switch {
		case ownedThen && still && k == "":
			viol("session-cleanup:empty-key-record-survives", fmt.Sprintf("the record under the empty key, owned by session %d, survived the session's cleanup", id))
		case ownedThen && still:
			viol("session-cleanup:orphaned-record-of-dead-session", fmt.Sprintf("record %s owned by session %d when its cleanup was applied is still there: %s", hexs(k), id, r2.txt)+"\x01"+k)
		case !ownedThen && !still:
			viol("session-cleanup:deleted-record-not-owned", fmt.Sprintf("the cleanup of session %d deleted %s = %s, which the session did not own when the cleanup was applied", id, hexs(k), r.txt)+"\x01"+k)
		case !ownedThen && r2.txt != r.txt:
			viol("session-cleanup:other-record-touched", fmt.Sprintf("record %s changed from %s to %s", hexs(k), r.txt, r2.txt))
		}
	}
	for k := range after.recs {
		if _, was := before.recs[k]; !was {
			viol("session-cleanup:other-record-touched", fmt.Sprintf("record %s appeared during the cleanup of session %d", hexs(k), id))
		}
	}
	if _, alive := after.sessions[id]; alive {
		viol("session-cleanup:session-key-survived", fmt.Sprintf("session %d still exists after its cleanup", id))
	}
	for s := range before.sessions {
		if _, ok := after.sessions[s]; !ok && s != id {
			viol("session-cleanup:other-record-touched", fmt.Sprintf("session %d disappeared during the cleanup of session %d", s, id))
		}
	}
}

// ---------------------------------------------------------------- generator

type c14gen struct {
	*gen
	seqCase bool            // the case generates sequence puts (and no two-step session ends)
	seqKeys map[string]bool // sequence prefixes used and keys generated so far
	keys    []string // the small key set of the case
	tag     string
	viols   map[string]bool // dedup inside one case: signature + detail
}

// viol: the verdict sink of one request. Verdicts name the key they are about in det after "\x01" (stripped here);
// if that key is a sequence prefix or a generated key the signature gets the suffix ":sequence-put".
func (c *c14gen) viol(ctx string) func(sig, det string) {
	return func(sig, det string) {
		if i := strings.IndexByte(det, 1); i >= 0 {
			key := det[i+1:]
			det = det[:i]
			if c.seqKeys[key] {
				sig += ":sequence-put"
			}
		}
		k := sig + "\x00" + det
		if c.viols[k] {
			return
		}
		c.viols[k] = true
		c.o.Violation(sig, c.tag+" "+ctx+": "+det)
	}
}

// write issues the request and evaluates the C14 verdicts on the dumps before / after it.
// cleanupOf >= 0: the request is the cleanup request of that session.
func (c *c14gen) write(w *wreq, cleanupOf int64) {
	before := c14ViewOf(c.r.e.dump())
	res := c.gen.write(w)
	after := c14ViewOf(c.r.e.dump())
	ctx := fmt.Sprintf("request#%d %s", c.r.nreq, w.String())
	viol := c.viol(ctx)
	if strings.HasPrefix(res, "ok:") {
		f := strings.Split(res, ":")
		prs := splitList(f[1], ",")
		for i, p := range w.puts {
			if len(p.deltas) > 0 && i < len(prs) && strings.HasPrefix(prs[i], "OK/") {
				t := strings.Split(prs[i], "/")
				if gk := t[len(t)-1]; gk != "n" {
					c.seqKeys[unhexs(gk)] = true
				}
			}
			if p.sess == nil || i >= len(prs) {
				continue
			}
			if _, alive := before.sessions[*p.sess]; !alive && strings.HasPrefix(prs[i], "OK") {
				viol("session:dead-session-write-accepted", fmt.Sprintf("put %s under session %d, which does not exist, answered %s", hexs(p.key), *p.sess, prs[i]))
			}
		}
		if cleanupOf >= 0 {
			c14CleanupExact(before, after, cleanupOf, viol)
		}
	}
	after.mirror(viol)
}

func (c *c14gen) key() string { return hx.Pick(c.rng, c.keys) }

func (c *c14gen) anySession() int64 {
	if len(c.sessions) > 0 && c.rng.Chance(88) {
		return hx.Pick(c.rng, c.sessions) // alive or already closed
	}
	return int64(900 + c.rng.Intn(3)) // never created
}

func (c *c14gen) put() putOp {
	p := putOp{key: c.key(), value: []byte(hx.Pick(c.rng, values))}
	switch x := c.rng.Intn(100); {
	case x < 55:
		p.sess = p64(c.anySession())
	case x < 75:
	default:
		p.exp = c.expFor(p.key)
		if c.rng.Chance(50) {
			p.sess = p64(c.anySession())
		}
	}
	if c.rng.Chance(20) {
		p.idx = c.indexes()
	}
	if c.rng.Chance(15) {
		p.ident = pstr("client-1")
	}
	return p
}

var c14SeqPrefixes = []string{"s", "q/x", "t-0", "a/b"}

// seqPut: a put with sequence deltas (and the partition key it needs), mostly under a session
func (c *c14gen) seqPut() putOp {
	prefix := hx.Pick(c.rng, c14SeqPrefixes)
	n := c.seqParts[prefix]
	if n == 0 {
		n = 1 + c.rng.Intn(2)
		c.seqParts[prefix] = n
	}
	p := putOp{key: prefix, value: []byte("seq"), part: pstr("pk")}
	for i := 0; i < n; i++ {
		p.deltas = append(p.deltas, uint64(1+c.rng.Intn(3)))
	}
	if c.rng.Chance(75) {
		p.sess = p64(c.anySession())
	}
	if c.rng.Chance(20) {
		p.idx = c.indexes()
	}
	c.seqKeys[prefix] = true
	c.o.Count("c14:sequence-put")
	return p
}

func (c *c14gen) request() *wreq {
	w := &wreq{}
	if c.seqCase && c.rng.Chance(45) {
		w.puts = append(w.puts, c.seqPut())
		if c.rng.Chance(30) { // a record sitting exactly at a prefix key (plain, or ephemeral of some session)
			p := putOp{key: hx.Pick(c.rng, c14SeqPrefixes), value: []byte("at-prefix")}
			if c.rng.Chance(40) {
				p.sess = p64(c.anySession())
			}
			w.puts = append(w.puts, p)
		}
		if c.rng.Chance(30) {
			w.puts = append(w.puts, c.seqPut())
		}
		return w
	}
	if c.rng.Chance(15) { // several operations on one key in one batch, sessions mixed
		k := c.key()
		for i, n := 0, 2+c.rng.Intn(3); i < n; i++ {
			p := putOp{key: k, value: []byte(fmt.Sprintf("b%d", i))}
			if c.rng.Chance(60) {
				p.sess = p64(c.anySession())
			}
			w.puts = append(w.puts, p)
		}
		if c.rng.Chance(40) {
			w.dels = append(w.dels, delOp{key: k})
		}
		c.o.Count("c14:same-key-batch")
		return w
	}
	for i, n := 0, 1+c.rng.Intn(3); i < n; i++ {
		w.puts = append(w.puts, c.put())
	}
	if c.rng.Chance(30) {
		d := delOp{key: c.key()}
		if c.rng.Chance(30) {
			d.exp = c.expFor(d.key)
		}
		w.dels = append(w.dels, d)
	}
	if c.rng.Chance(15) {
		a, b := c.key(), c.key()
		if a != "" && b != "" && !sweepsInternal(a, b) {
			w.ranges = append(w.ranges, rangeOp{a, b})
		}
	}
	return w
}

func (c *c14gen) create() int64 {
	md := &proto.SessionMetadata{TimeoutMs: uint32(5000 + c.rng.Intn(1000)), Identity: "client-" + fmt.Sprint(c.rng.Intn(3))}
	val, err := md.MarshalVT()
	hx.Must(err)
	id := c.off + 1
	c.write(&wreq{puts: []putOp{{key: server.SessionKey(server.SessionId(id)), value: val}}}, -1)
	c.sessions = append(c.sessions, id)
	c.o.Count("c14:create-session")
	return id
}

// list is step 1 of session.delete(): the L op (recorded in the case) and the keys the server would extract
func (c *c14gen) list(id int64) []string {
	sk := server.SessionKey(server.SessionId(id))
	res := c.r.do(fmt.Sprintf("L:%s:%s", hexs(sk+"/"), hexs(sk+"//")))
	var keys []string
	for _, h := range splitList(res, ",") {
		full := unhexs(h)
		if k, err := url.PathUnescape(full[len(sk)+1:]); err == nil && k != "" {
			keys = append(keys, k)
		}
	}
	return keys
}

func (c *c14gen) cleanupReq(id int64, keys []string) *wreq {
	sk := server.SessionKey(server.SessionId(id))
	w := &wreq{}
	for _, k := range keys {
		w.dels = append(w.dels, delOp{key: k})
	}
	w.dels = append(w.dels, delOp{key: sk})
	w.ranges = append(w.ranges, rangeOp{sk + "/", sk + "//"})
	return w
}

func (c *c14gen) closeAtomic(id int64) {
	c.write(c.cleanupReq(id, c.list(id)), id)
	c.o.Count("c14:close-atomic")
}

// closeTwoStep: other clients' requests land between the listing and the cleanup request
func (c *c14gen) closeTwoStep(id int64, forced int) {
	if forced < 0 && c.rng.Chance(70) { // make sure the session has something to lose
		c.write(&wreq{puts: []putOp{{key: c.key(), value: []byte("mine"), sess: p64(id)}}}, -1)
	}
	keys := c.list(id)
	for i, n := 0, 1+c.rng.Intn(3); i < n; i++ {
		kind := c.rng.Intn(6)
		if forced >= 0 {
			kind, n = forced, 1
		}
		owned := c14ViewOf(c.r.e.dump()).owned(id)
		w := &wreq{}
		switch {
		case kind == 0 && len(owned) > 0: // plain put takes an owned key over
			w.puts = append(w.puts, putOp{key: hx.Pick(c.rng, owned), value: []byte("plain-takeover")})
			c.o.Count("c14:interleave:plain-takeover")
		case kind == 1: // the dying session's client writes another key
			k := c.key()
			if forced >= 0 {
				k = "fresh"
			}
			w.puts = append(w.puts, putOp{key: k, value: []byte("late"), sess: p64(id)})
			c.o.Count("c14:interleave:put-under-dying-session")
		case kind == 2 && len(owned) > 0 && len(c.others(id)) > 0: // another session takes over
			w.puts = append(w.puts, putOp{key: hx.Pick(c.rng, owned), value: []byte("other"), sess: p64(hx.Pick(c.rng, c.others(id)))})
			c.o.Count("c14:interleave:session-takeover")
		case kind == 3 && len(owned) > 0: // an owned key is deleted (and maybe re-created)
			k := hx.Pick(c.rng, owned)
			w.dels = append(w.dels, delOp{key: k})
			c.o.Count("c14:interleave:delete-owned")
			if forced >= 0 || c.rng.Chance(50) { // ... and re-created by a plain put
				c.write(w, -1)
				w = &wreq{puts: []putOp{{key: k, value: []byte("recreated-plain")}}}
			}
		default: // unrelated traffic: the cleanup must be exact
			w.puts = append(w.puts, putOp{key: "unrelated/" + fmt.Sprint(c.rng.Intn(3)), value: []byte("u")})
			c.o.Count("c14:interleave:unrelated")
		}
		c.write(w, -1)
	}
	c.write(c.cleanupReq(id, keys), id)
	c.o.Count("c14:close-two-step")
}

// sessionToClose prefers a session that still exists (closing a closed one again is legal and also generated)
func (c *c14gen) sessionToClose() int64 {
	v := c14ViewOf(c.r.e.dump())
	var alive []int64
	for _, s := range c.sessions {
		if _, ok := v.sessions[s]; ok {
			alive = append(alive, s)
		}
	}
	if len(alive) > 0 && c.rng.Chance(85) {
		return hx.Pick(c.rng, alive)
	}
	return hx.Pick(c.rng, c.sessions)
}

func (c *c14gen) others(id int64) []int64 {
	var r []int64
	for _, s := range c.sessions {
		if s != id {
			r = append(r, s)
		}
	}
	return r
}

func (c *c14gen) bulkEphemeral(n int) {
	if len(c.sessions) == 0 {
		c.create()
	}
	c.gen.bulk(n) // "r/000".. some of them under sessions[0], then delete-ranges around the threshold
	c14ViewOf(c.r.e.dump()).mirror(c.viol(fmt.Sprintf("after the bulk range delete over %d keys", n)))
}

func c14NewGen(o *hx.Out, r *runner, rng *hx.Rng, tag string, keys []string) *c14gen {
	g := &gen{rng: rng, r: r, o: o, off: -1, ts: 1000 + uint64(rng.Intn(100000)), seqParts: map[string]int{}}
	return &c14gen{gen: g, keys: keys, tag: tag, viols: map[string]bool{}, seqKeys: map[string]bool{}}
}

// the witnesses of Properties/C14.v (c14_cleanup_exact_refuted_*, c14_empty_key_orphan_refuted), run first
func c14Witnesses(o *hx.Out) {
	for forced := 0; forced <= 4; forced++ {
		forced := forced
		tag := fmt.Sprintf("witness#two-step-%d", forced)
		runCase(o, "seq", 1, false, tag, tag, func(r *runner) {
			c := c14NewGen(o, r, hx.NewRng(uint64(77+forced)), tag, []string{"a", "b"})
			other := c.create()
			c.write(&wreq{puts: []putOp{{key: "b", value: []byte("v"), sess: p64(other)}}}, -1)
			id := c.create()
			c.write(&wreq{puts: []putOp{{key: "a", value: []byte("v"), sess: p64(id)}}}, -1)
			c.closeTwoStep(id, forced)
			r.do("D")
		})
	}
	stag := "witness#sequence-put"
	runCase(o, "seq", 1, false, stag, stag, func(r *runner) {
		c := c14NewGen(o, r, hx.NewRng(6), stag, []string{"a"})
		c.seqCase = true
		c.seqKeys["s"] = true
		id := c.create()
		other := c.create()
		c.write(&wreq{puts: []putOp{{key: "s", value: []byte("plain-at-prefix")}}}, -1)
		sp := func(sess *int64) putOp { return putOp{key: "s", value: []byte("seq"), part: pstr("pk"), deltas: []uint64{1}, sess: sess} }
		c.write(&wreq{puts: []putOp{sp(p64(id))}}, -1)
		c.write(&wreq{puts: []putOp{sp(p64(other)), sp(nil), sp(p64(id))}}, -1)
		c.closeAtomic(id)
		c.closeAtomic(other)
		r.do("D")
	})
	tag := "witness#empty-key"
	runCase(o, "seq", 1, false, tag, tag, func(r *runner) {
		c := c14NewGen(o, r, hx.NewRng(5), tag, []string{"a"})
		id := c.create()
		c.write(&wreq{puts: []putOp{{key: "", value: []byte("v"), sess: p64(id)}, {key: "a", value: []byte("v"), sess: p64(id)}}}, -1)
		c.closeAtomic(id)
		r.do("D")
	})
}

func c14Main(o *hx.Out, f hx.Flags) {
	c14Witnesses(o)
	rng := hx.NewRng(f.Seed ^ 0xc14c14)
	for n := 0; n < f.N; n++ {
		crng := rng.Fork()
		shard := int64(1 + crng.Intn(9))
		tag := fmt.Sprintf("c14case#%d", n)
		// a small key set so that sessions meet on the same keys; some keys need escaping in the shadow key
		pool := append([]string{}, userKeys...)
		var keys []string
		for i, k := 0, 3+crng.Intn(5); i < k; i++ {
			keys = append(keys, hx.Pick(crng, pool))
		}
		flavour := crng.Intn(12)
		runCase(o, "seq", shard, false, tag, fmt.Sprintf("%d", crng.U64()), func(r *runner) {
			c := c14NewGen(o, r, crng, tag, keys)
			c.seqCase = flavour >= 8 // a third of the cases: ephemeral sequential keys, atomic session ends only
			if c.seqCase {
				o.Count("c14:case-with-sequence-puts")
			}
			if crng.Chance(30) {
				r.do(fmt.Sprintf("T:%d:%d", 1+crng.Intn(5), crng.Intn(2)))
			}
			c.create()
			for i, steps := 0, 15+crng.Intn(30); i < steps; i++ {
				switch x := crng.Intn(100); {
				case x < 10:
					c.create()
				case x < 17:
					c.closeAtomic(c.sessionToClose())
				case x < 27 && !c.seqCase:
					c.closeTwoStep(c.sessionToClose(), -1)
				case x < 27:
					c.closeAtomic(c.sessionToClose())
				case x < 30:
					r.do(fmt.Sprintf("T:%d:%d", 2+i, crng.Intn(2))) // leader change: the DB keeps sessions and shadows
				case x < 33:
					r.do(fmt.Sprintf("G:%d:%s:%d", crng.Intn(5), hexs(c.key()), crng.Intn(2)))
				default:
					c.write(c.request(), -1)
				}
				if flavour == 0 && i == 4 {
					c.bulkEphemeral(hx.Pick(crng, []int{99, 100, 101, 130}))
				}
			}
			r.do("D")
		})
	}
}
