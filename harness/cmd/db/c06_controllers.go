package main

// C06 (-mode c06ctl): the routes of c06_routes.go on the REAL controllers (server/follower_controller.go,
// server/leader_controller.go) with a real WAL and Pebble on disk.
//
// One case = one committed log generated and applied live on a reference kv.DB (route A; the `seq` case the
// extracted model is compared with). Then:
//
//	D  follower        a real FollowerController (NewTerm with the namespace's notification option) is fed the
//	                   same entries over a Replicate stream (commit offset advertised as a catching-up leader
//	                   does); processCommittedEntries applies them; optionally the controller is closed and
//	                   re-created in the middle (restart: NewDB + ReadTerm + EnableNotifications, resume from
//	                   the stored commit offset)
//	S  follower+snap   a fresh follower receives a real Snapshot() of a sender that applied a prefix, through
//	                   FollowerController.SendSnapshot (real handleSnapshot / SnapshotLoader, small chunk sizes),
//	                   then the rest of the log over Replicate
//	E  elected         a follower appends the whole log but applies only a prefix (lagging commit offset); it is
//	                   then elected: BecomeLeader's applyAllEntriesIntoDB applies the rest
//	CL lifecycle       c06_lifecycle.go: role events on the same / re-created controller objects (elected from a lagging DB,
//	                   elected again with no write, writes, NewTerm only, failed election retried, role switch), dump after every step
//	L  leader          a real LeaderController (replication factor 1) takes requests through WriteBlock /
//	                   CreateSession / CloseSession; afterwards its own WAL (its offsets and timestamps) is
//	                   replayed on a fresh kv.DB: the two databases must be identical
//	LC leader+cancel   c06_cancel.go: replication factor 2, the harness holds the follower's acks; callers of some
//	                   writes go away between WAL sync and commit; leader DB vs its log replayed vs a real follower
//
// After each route the controller is closed and its database is dumped (kv.NewDB on the same factory).
//
// SPEC VERDICTS  determinism:routes-differ:live-vs-follower | live-vs-follower-restart |
//
//	live-vs-follower-snapshot | live-vs-elected-leader-replay | leader-live-vs-log-replay
//	snapshot:install-hangs   SendSnapshot does not return / the follower is wedged after a damaged stream
//	determinism:version-counter-ahead-after-failed-batch   a batch accepted into the log by the real leader
//	                   fails at apply after one of its puts took a version id (C13's subject): the next put
//	                   gets a version id that no replica re-created from the stored state would assign

import (
	"context"
	"fmt"
	"io"
	"os"
	"path/filepath"
	"runtime"
	"strings"
	"sync"
	"sync/atomic"
	"time"

	"google.golang.org/grpc/metadata"
	pb "google.golang.org/protobuf/proto"

	oxtime "github.com/oxia-db/oxia/common/time"
	"github.com/oxia-db/oxia/proto"
	"github.com/oxia-db/oxia/server"
	"github.com/oxia-db/oxia/server/kv"
	"github.com/oxia-db/oxia/server/wal"

	"verif/harness/internal/hx"
	"verif/harness/internal/kvsafe"
)

const c06StepTimeout = 60 * time.Second

var c06SrvConfig = server.Config{NotificationsRetentionTime: time.Hour}

func c06WaitFor(cond func() bool) bool {
	deadline := time.Now().Add(c06StepTimeout)
	for !cond() {
		if time.Now().After(deadline) {
			return false
		}
		time.Sleep(200 * time.Microsecond)
	}
	return true
}

// ---- in-process stand-ins for the gRPC streams (the harness is the leader of the follower under test)
type c06StreamBase struct{ ctx context.Context }

func (c06StreamBase) SendHeader(metadata.MD) error   { return nil }
func (c06StreamBase) SetHeader(metadata.MD) error    { return nil }
func (c06StreamBase) SetTrailer(metadata.MD)         {}
func (c06StreamBase) RecvMsg(any) error              { return nil }
func (c06StreamBase) SendMsg(any) error              { return nil }
func (s c06StreamBase) Context() context.Context     { return s.ctx }

type c06LeaderStub struct {
	c06StreamBase
	cancel context.CancelFunc
	in     chan *proto.Append
	mu     sync.Mutex
	maxAck int64
	closed atomic.Bool
	recv   atomic.Bool
}

func newC06LeaderStub() *c06LeaderStub {
	ctx, cancel := context.WithCancel(context.Background())
	return &c06LeaderStub{c06StreamBase: c06StreamBase{ctx}, cancel: cancel, in: make(chan *proto.Append, 8192), maxAck: -1}
}

func (l *c06LeaderStub) Send(a *proto.Ack) error {
	l.mu.Lock()
	if a.Offset > l.maxAck {
		l.maxAck = a.Offset
	}
	l.mu.Unlock()
	return nil
}

func (l *c06LeaderStub) Recv() (*proto.Append, error) {
	l.recv.Store(true) // handleServerStream is serving this stream
	select {
	case a := <-l.in:
		return a, nil
	case <-l.ctx.Done():
		return nil, io.EOF
	}
}

type c06SnapStub struct {
	c06StreamBase
	chunks []*proto.SnapshotChunk
	pos    int
	resp   chan *proto.SnapshotResponse
}

func (s *c06SnapStub) Recv() (*proto.SnapshotChunk, error) {
	if s.pos >= len(s.chunks) {
		return nil, io.EOF
	}
	c := s.chunks[s.pos]
	s.pos++
	return c, nil
}

func (s *c06SnapStub) SendAndClose(r *proto.SnapshotResponse) error {
	s.resp <- r
	return nil
}

// the leader under test has no followers
type c06NoRpc struct{}

func (c06NoRpc) GetReplicateStream(context.Context, string, string, int64, int64) (proto.OxiaLogReplication_ReplicateClient, error) {
	return nil, fmt.Errorf("harness: no followers")
}
func (c06NoRpc) SendSnapshot(context.Context, string, string, int64, int64) (proto.OxiaLogReplication_SendSnapshotClient, error) {
	return nil, fmt.Errorf("harness: no followers")
}
func (c06NoRpc) Truncate(string, *proto.TruncateRequest) (*proto.TruncateResponse, error) {
	return nil, fmt.Errorf("harness: no followers")
}
func (c06NoRpc) Close() error { return nil }

// c06StreamGoroutines: how many of the two goroutines serving a follower's replication stream are running
// (one follower runs at a time). FollowerController.Close does not wait for them (they use fc.wal, which
// Close sets to nil), so the harness lets them end before it closes the controller.
func c06StreamGoroutines() int {
	buf := make([]byte, 16<<20) // (a truncated dump would hide the goroutines: the waits using this are bounded and never fatal)
	st := string(buf[:runtime.Stack(buf, true)])
	n := 0
	for _, fn := range []string{"followerController).handleServerStream", "followerController).handleReplicateSync"} {
		if strings.Contains(st, fn) {
			n++
		}
	}
	return n
}

// ---- one node's storage
type c06Node struct {
	dir   string
	ns    string
	shard int64
	kvf   kv.Factory
	walf  wal.Factory
}

func newC06Node(tag string, shard int64) *c06Node {
	n := &c06Node{dir: c06TmpDir(tag), ns: "default", shard: shard}
	var err error
	n.kvf, err = kvsafe.New(&kv.FactoryOptions{DataDir: filepath.Join(n.dir, "db"), CacheSizeMB: 1})
	hx.Must(err)
	n.walf = wal.NewWalFactory(&wal.FactoryOptions{BaseWalDir: filepath.Join(n.dir, "wal"), Retention: time.Hour, SegmentSize: 128 * 1024, SyncData: false})
	return n
}

func (n *c06Node) close() {
	_ = n.kvf.Close()
	_ = n.walf.Close()
	_ = os.RemoveAll(n.dir)
}

// dump opens the node's database (no controller may be running) and dumps it.
func (n *c06Node) dump() string {
	db, err := kv.NewDB(n.ns, n.shard, n.kvf, time.Hour, &oxtime.MockedClock{})
	hx.Must(err)
	e := &env{factory: n.kvf, db: db}
	txt := dumpText(e.dump())
	hx.Must(db.Close())
	return txt
}

func c06LogEntry(term int64, w *wreq) *proto.LogEntry {
	lev := &proto.LogEntryValue{Value: &proto.LogEntryValue_Requests{Requests: &proto.WriteRequests{Writes: []*proto.WriteRequest{w.toProto()}}}}
	val, err := lev.MarshalVT()
	hx.Must(err)
	return &proto.LogEntry{Term: term, Offset: w.offset, Value: val, Timestamp: w.ts}
}

// ---- the follower under test
type c06Follower struct {
	n    *c06Node
	fc   server.FollowerController
	ls   *c06LeaderStub
	done chan struct{}
	term int64
}

func c06StartFollower(n *c06Node, term int64, en bool, newTerm bool) *c06Follower {
	f := &c06Follower{n: n, term: term}
	var err error
	f.fc, err = server.NewFollowerController(c06SrvConfig, n.ns, n.shard, n.walf, n.kvf)
	hx.Must(err)
	if newTerm {
		_, err = f.fc.NewTerm(&proto.NewTermRequest{Namespace: n.ns, Shard: n.shard, Term: term, Options: &proto.NewTermOptions{EnableNotifications: en}})
		hx.Must(err)
	}
	return f
}

// attach opens a replication stream on the follower. The positive signal is the first Recv of the
// follower's handleServerStream on the stub. If Replicate returns instead (e.g. the previous stream is still being
// torn down: ErrLeaderAlreadyConnected) the attach is retried once. false = the case cannot be started (no verdict).
func (f *c06Follower) attach() bool {
	for try := 0; try < 2; try++ {
		f.ls = newC06LeaderStub()
		f.done = make(chan struct{})
		ls, done := f.ls, f.done
		go func() {
			_ = f.fc.Replicate(ls)
			ls.closed.Store(true)
			close(done)
		}()
		c06WaitFor(func() bool { return ls.closed.Load() || ls.recv.Load() })
		if ls.recv.Load() && !ls.closed.Load() {
			return true
		}
		ls.cancel()
		<-done
		f.ls = nil
		time.Sleep(100 * time.Millisecond)
	}
	return false
}

// c06NotStarted: the replication stream could not be opened (timing): the case gives no verdict
func c06NotStarted(o *hx.Out, f *c06Follower) {
	o.Count("not-started:replication-stream")
	f.stop()
}

func (f *c06Follower) detach() {
	if f.ls == nil {
		return
	}
	f.ls.cancel()
	<-f.done
	f.ls = nil
	// the sync routine of the stream ends on its own context; give it the time to notice (bounded, never fatal)
	deadline := time.Now().Add(5 * time.Second)
	for c06StreamGoroutines() != 0 && time.Now().Before(deadline) {
		time.Sleep(time.Millisecond)
	}
}

// feed sends entries[from:to] (advertising `commit` with the last one and a lagging value before) and waits
// until the follower has applied up to `commit`.
func (f *c06Follower) feed(rng *hx.Rng, lg *c06Log, from, to int, commit int64) bool {
	adv := int64(-1)
	if from > 0 {
		adv = lg.entries[from-1].w.offset
	}
	for i := from; i < to; i++ {
		w := lg.entries[i].w
		switch {
		case i == to-1:
			adv = commit
		case rng.Chance(50):
			// anything a leader could have committed by now (a catching-up follower sees offsets ahead of the entry)
			adv = lg.entries[rng.Intn(to)].w.offset
		}
		f.ls.in <- &proto.Append{Term: f.term, Entry: c06LogEntry(f.term, w), CommitOffset: adv}
	}
	return c06WaitFor(func() bool { return f.fc.CommitOffset() >= commit })
}

func (f *c06Follower) stop() {
	f.detach()
	hx.Must(f.fc.Close())
}

func c06CtlViol(o *hx.Out, route string, lg *c06Log, how string, dump string) {
	if dump == lg.final {
		return
	}
	o.Violation("determinism:routes-differ:live-vs-"+route, fmt.Sprintf("%s (route %s: %s); %s", firstDiff(lg.final, dump), route, how, lg.text()))
}

// ---------------------------------------------------------------- route D: follower (with optional restart)
func c06RouteFollower(o *hx.Out, rng *hx.Rng, lg *c06Log) {
	n := newC06Node("fol", lg.shard)
	defer n.close()
	f := c06StartFollower(n, lg.term, lg.en, true)
	if !f.attach() {
		c06NotStarted(o, f)
		return
	}
	nE := len(lg.entries)
	route, how := "follower", "entries over Replicate"
	cut := nE
	if rng.Chance(50) && nE > 1 {
		cut = 1 + rng.Intn(nE-1)
		if lg.pivot > 0 && rng.Chance(70) {
			cut = lg.pivot
		}
		route = "follower-restart"
	}
	last := func(k int) int64 { return lg.entries[k-1].w.offset }
	if !f.feed(rng, lg, 0, cut, last(cut)) {
		o.Violation("determinism:routes-differ:live-vs-"+route, fmt.Sprintf("the follower stopped applying: commit offset %d, expected %d; %s", f.fc.CommitOffset(), last(cut), lg.text()))
		f.stop()
		return
	}
	if cut < nE {
		// restart of the node: the controller is re-created on what is stored (no NewTerm: it comes back fenced
		// in its stored term, with the notification switch read from the stored term options)
		f.stop()
		how = fmt.Sprintf("controller closed and re-created after entry #%d", cut-1)
		f = c06StartFollower(n, lg.term, lg.en, false)
		if !f.attach() {
			c06NotStarted(o, f)
			return
		}
		if !f.feed(rng, lg, cut, nE, last(nE)) {
			o.Violation("determinism:routes-differ:live-vs-"+route, fmt.Sprintf("the restarted follower stopped applying: commit offset %d, expected %d; %s", f.fc.CommitOffset(), last(nE), lg.text()))
			f.stop()
			return
		}
	}
	f.stop()
	c06CtlViol(o, route, lg, how, n.dump())
	o.Count("route:" + route)
}

// ---------------------------------------------------------------- route E: a follower's unapplied tail, applied by BecomeLeader
// The follower (term-1) has appended and synced the whole log but was told that only a prefix is committed;
// it is then elected: NewLeaderController on the same storage, NewTerm(term), BecomeLeader (replication
// factor 1) runs applyAllEntriesIntoDB over the rest of the log.
func c06RouteElected(o *hx.Out, rng *hx.Rng, lg *c06Log) {
	n := newC06Node("elect", lg.shard)
	defer n.close()
	nE := len(lg.entries)
	k := rng.Intn(nE) // entries 0..k-1 are applied by the follower
	if lg.pivot > 0 && rng.Chance(60) {
		k = lg.pivot
	}
	committed := int64(-1)
	if k > 0 {
		committed = lg.entries[k-1].w.offset
	}
	how := fmt.Sprintf("follower in term %d appended %d entries and applied the first %d; elected in term %d, BecomeLeader applied the rest", lg.term-1, nE, k, lg.term)
	f := c06StartFollower(n, lg.term-1, lg.en, true)
	if !f.attach() {
		c06NotStarted(o, f)
		return
	}
	for _, en := range lg.entries {
		f.ls.in <- &proto.Append{Term: f.term, Entry: c06LogEntry(f.term, en.w), CommitOffset: committed}
	}
	lastOff := lg.entries[nE-1].w.offset
	ls := f.ls
	ok := c06WaitFor(func() bool {
		ls.mu.Lock()
		defer ls.mu.Unlock()
		return ls.maxAck >= lastOff
	}) && c06WaitFor(func() bool { return f.fc.CommitOffset() >= committed })
	f.stop()
	if !ok {
		o.Count("not-started:elected(follower setup did not finish in time)") // the follower route judges a follower that stops applying
		return
	}
	lc, err := server.NewLeaderController(c06SrvConfig, n.ns, n.shard, c06NoRpc{}, n.walf, n.kvf)
	hx.Must(err)
	_, err = lc.NewTerm(&proto.NewTermRequest{Namespace: n.ns, Shard: n.shard, Term: lg.term, Options: &proto.NewTermOptions{EnableNotifications: lg.en}})
	hx.Must(err)
	ctx, cancel := context.WithTimeout(context.Background(), c06StepTimeout)
	_, err = lc.BecomeLeader(ctx, &proto.BecomeLeaderRequest{Namespace: n.ns, Shard: n.shard, Term: lg.term, ReplicationFactor: 1, FollowerMaps: map[string]*proto.EntryId{}})
	cancel()
	_ = lc.Close()
	if err != nil {
		o.Violation("determinism:routes-differ:live-vs-elected-leader-replay", fmt.Sprintf("BecomeLeader cannot apply the log that the follower route applies: %v; %s; %s", err, how, lg.text()))
		return
	}
	c06CtlViol(o, "elected-leader-replay", lg, how, n.dump())
	o.Count("route:elected-leader-replay")
}

// ---------------------------------------------------------------- route S: snapshot through handleSnapshot
func c06RouteFollowerSnapshot(o *hx.Out, rng *hx.Rng, lg *c06Log) {
	nE := len(lg.entries)
	cut := 1 + rng.Intn(nE) // the snapshot covers entries 0..cut-1
	if lg.pivot > 0 && rng.Chance(60) {
		cut = lg.pivot
	}
	src := newEnv(lg.shard, true)
	defer src.close()
	c06Prelude(src.db, lg)
	for i := 0; i < cut; i++ {
		c06Apply(src.db, lg.entries[i].w)
	}
	cs := int64(hx.Pick(rng, []int{5, 7, 64, 1000, 4096, 0}))
	var chunks []*proto.SnapshotChunk
	withChunkSize(cs, func() {
		snap, err := src.db.Snapshot()
		hx.Must(err)
		for ; snap.Valid(); snap.Next() {
			ch, err := snap.Chunk()
			hx.Must(err)
			chunks = append(chunks, &proto.SnapshotChunk{Term: lg.term, Name: ch.Name(), ChunkIndex: ch.Index(), ChunkCount: ch.TotalCount(), Content: append([]byte(nil), ch.Content()...)})
		}
		hx.Must(snap.Close())
	})
	o.CountN("snapshot:chunks", len(chunks))
	n := newC06Node("folsnap", lg.shard)
	defer n.close()
	f := c06StartFollower(n, lg.term, lg.en, true)
	// optionally the follower already holds a shorter prefix of its own
	how := fmt.Sprintf("snapshot of entries 0..#%d in %d chunks (chunk size %d) through SendSnapshot, then the rest over Replicate", cut-1, len(chunks), cs)
	if rng.Chance(40) && cut > 1 {
		own := 1 + rng.Intn(cut-1)
		if !f.attach() {
			c06NotStarted(o, f)
			return
		}
		f.feed(rng, lg, 0, own, lg.entries[own-1].w.offset)
		f.detach()
		how = fmt.Sprintf("follower first applied entries 0..#%d itself; ", own-1) + how
	}
	st := &c06SnapStub{c06StreamBase: c06StreamBase{context.Background()}, chunks: chunks, resp: make(chan *proto.SnapshotResponse, 1)}
	if err, returned := c06SendSnapshot(f.fc, st); !returned {
		o.Violation("snapshot:install-hangs", fmt.Sprintf("SendSnapshot did not return within %v; %s; %s", c06StepTimeout, how, lg.text()))
		return // the controller is wedged: it cannot be closed
	} else if err != nil {
		o.Violation("determinism:routes-differ:live-vs-follower-snapshot", fmt.Sprintf("SendSnapshot failed: %v; %s; %s", err, how, lg.text()))
		f.stop()
		return
	}
	select {
	case r := <-st.resp:
		if r.AckOffset != lg.entries[cut-1].w.offset {
			o.Violation("determinism:routes-differ:live-vs-follower-snapshot", fmt.Sprintf("snapshot acknowledged at offset %d, it covers up to %d; %s; %s", r.AckOffset, lg.entries[cut-1].w.offset, how, lg.text()))
		}
	default:
		o.Violation("determinism:routes-differ:live-vs-follower-snapshot", fmt.Sprintf("no response to the snapshot; %s; %s", how, lg.text()))
		f.stop()
		return
	}
	if cut < nE {
		if !f.attach() {
			c06NotStarted(o, f)
			return
		}
		if !f.feed(rng, lg, cut, nE, lg.entries[nE-1].w.offset) {
			o.Violation("determinism:routes-differ:live-vs-follower-snapshot", fmt.Sprintf("the follower stopped applying after the snapshot: commit offset %d; %s; %s", f.fc.CommitOffset(), how, lg.text()))
			f.stop()
			return
		}
	}
	f.stop()
	c06CtlViol(o, "follower-snapshot", lg, how, n.dump())
	o.Count("route:follower-snapshot")
	o.Count(fmt.Sprintf("follower-snapshot:notifications=%v", lg.en))
}

func c06SendSnapshot(fc server.FollowerController, st *c06SnapStub) (err error, returned bool) {
	done := make(chan error, 1)
	go func() { done <- fc.SendSnapshot(st) }()
	select {
	case err = <-done:
		return err, true
	case <-time.After(c06StepTimeout):
		return nil, false
	}
}

// A damaged snapshot stream (a chunk lost in the middle of a file) must be refused with an error, and the
// follower must stay usable (O-42: the error path of readSnapshotStream locked the mutex its caller holds).
func c06DamagedSnapshotProbe(o *hx.Out) {
	src := newEnv(2, true)
	defer src.close()
	hx.Must(src.db.UpdateTerm(1, kv.TermOptions{NotificationsEnabled: true}))
	for i := 0; i < 5; i++ {
		c06Apply(src.db, &wreq{offset: int64(i), ts: uint64(100 + i), puts: []putOp{{key: fmt.Sprintf("k%d", i), value: []byte("value")}}})
	}
	var chunks []*proto.SnapshotChunk
	withChunkSize(64, func() {
		snap, err := src.db.Snapshot()
		hx.Must(err)
		for ; snap.Valid(); snap.Next() {
			ch, err := snap.Chunk()
			hx.Must(err)
			chunks = append(chunks, &proto.SnapshotChunk{Term: 1, Name: ch.Name(), ChunkIndex: ch.Index(), ChunkCount: ch.TotalCount(), Content: append([]byte(nil), ch.Content()...)})
		}
		hx.Must(snap.Close())
	})
	// drop the last chunk of the first file that has several: the next file's first chunk finds a file open
	for i, c := range chunks {
		if c.ChunkCount > 1 && c.ChunkIndex == c.ChunkCount-1 && i+1 < len(chunks) {
			chunks = append(chunks[:i], chunks[i+1:]...)
			break
		}
	}
	n := newC06Node("dmg", 2)
	f := c06StartFollower(n, 1, true, true)
	st := &c06SnapStub{c06StreamBase: c06StreamBase{context.Background()}, chunks: chunks, resp: make(chan *proto.SnapshotResponse, 1)}
	err, returned := c06SendSnapshot(f.fc, st)
	switch {
	case !returned:
		o.Violation("snapshot:install-hangs", "a snapshot stream with one chunk missing in the middle of a file: SendSnapshot never returns (the follower controller is wedged)")
		o.Count("damaged-snapshot:hang")
		return // cannot be closed
	case err == nil:
		o.Violation("snapshot:chunk-reassembly-differs", "a snapshot stream with one chunk missing in the middle of a file was installed without an error")
	default:
		o.Count("damaged-snapshot:refused")
	}
	// still usable
	done := make(chan error, 1)
	go func() {
		_, err := f.fc.NewTerm(&proto.NewTermRequest{Namespace: n.ns, Shard: n.shard, Term: 2, Options: &proto.NewTermOptions{EnableNotifications: true}})
		done <- err
	}()
	select {
	case <-done:
		f.stop()
		n.close()
	case <-time.After(c06StepTimeout):
		o.Violation("snapshot:install-hangs", "after a refused snapshot the follower controller does not answer NewTerm")
	}
}

// ---------------------------------------------------------------- route L: the real leader, then its own log replayed
type c06Leader struct {
	n  *c06Node
	lc server.LeaderController
}

func c06StartLeader(n *c06Node, term int64, en bool) *c06Leader {
	l := &c06Leader{n: n}
	var err error
	l.lc, err = server.NewLeaderController(c06SrvConfig, n.ns, n.shard, c06NoRpc{}, n.walf, n.kvf)
	hx.Must(err)
	_, err = l.lc.NewTerm(&proto.NewTermRequest{Namespace: n.ns, Shard: n.shard, Term: term, Options: &proto.NewTermOptions{EnableNotifications: en}})
	hx.Must(err)
	ctx, cancel := context.WithTimeout(context.Background(), c06StepTimeout)
	defer cancel()
	_, err = l.lc.BecomeLeader(ctx, &proto.BecomeLeaderRequest{Namespace: n.ns, Shard: n.shard, Term: term, ReplicationFactor: 1, FollowerMaps: map[string]*proto.EntryId{}})
	hx.Must(err)
	return l
}

func (l *c06Leader) write(req *proto.WriteRequest) (*proto.WriteResponse, error) {
	ctx, cancel := context.WithTimeout(context.Background(), c06StepTimeout)
	defer cancel()
	return l.lc.WriteBlock(ctx, req)
}

// readWal returns the entries of the node's log (the controller must be closed).
func (n *c06Node) readWal() []*proto.LogEntry {
	w, err := n.walf.NewWal(n.ns, n.shard, nil)
	hx.Must(err)
	defer w.Close()
	r, err := w.NewReader(wal.InvalidOffset)
	hx.Must(err)
	defer r.Close()
	var es []*proto.LogEntry
	for r.HasNext() {
		e, err := r.ReadNext()
		hx.Must(err)
		es = append(es, pb.Clone(e).(*proto.LogEntry))
	}
	return es
}

func c06ApplyLogEntry(db kv.DB, e *proto.LogEntry) error {
	lev := &proto.LogEntryValue{}
	hx.Must(lev.UnmarshalVT(e.Value)) // as followerController.processCommittedEntriesLoop decodes it
	for _, w := range lev.GetRequests().Writes {
		if _, err := db.ProcessWrite(w, e.Offset, e.Timestamp, server.WrapperUpdateOperationCallback); err != nil {
			return err
		}
	}
	return nil
}

var c06LeaderKeys = []string{"a", "b", "a/b", "a/c", "c", "zz/y", "k\x01x", "a-", "m/n"}

func c06LeaderRequest(rng *hx.Rng, sessions []int64) *proto.WriteRequest {
	req := &proto.WriteRequest{}
	for i, n := 0, rng.Intn(4); i < n; i++ {
		p := &proto.PutRequest{Key: hx.Pick(rng, c06LeaderKeys), Value: []byte(hx.Pick(rng, values))}
		switch x := rng.Intn(100); {
		case x < 15:
			p.ExpectedVersionId = p64(-1)
		case x < 35 && len(sessions) > 0:
			p.SessionId = p64(hx.Pick(rng, sessions))
		case x < 50:
			p.Key = hx.Pick(rng, []string{"s", "q/x"})
			p.PartitionKey = pstr("pk")
			p.SequenceKeyDelta = []uint64{uint64(1 + rng.Intn(3))}
		}
		if rng.Chance(30) {
			p.SecondaryIndexes = []*proto.SecondaryIndex{{IndexName: hx.Pick(rng, idxNames), SecondaryKey: hx.Pick(rng, idxKeys)}}
		}
		if rng.Chance(20) {
			p.ClientIdentity = pstr("client-1")
		}
		req.Puts = append(req.Puts, p)
	}
	for i, n := 0, rng.Intn(2); i < n; i++ {
		req.Deletes = append(req.Deletes, &proto.DeleteRequest{Key: hx.Pick(rng, c06LeaderKeys)})
	}
	if rng.Chance(15) {
		// (a range from a key without '/' to a key with '/' sweeps the internal keys: refused by the leader)
		r := hx.Pick(rng, [][2]string{{"a", "b"}, {"a", "c"}, {"a/b", "a/c"}, {"a/", "m/z"}, {"b", "a"}})
		req.DeleteRanges = append(req.DeleteRanges, &proto.DeleteRangeRequest{StartInclusive: r[0], EndExclusive: r[1]})
	}
	if len(req.Puts)+len(req.Deletes)+len(req.DeleteRanges) == 0 {
		req.Puts = append(req.Puts, &proto.PutRequest{Key: "a", Value: []byte("v")})
	}
	return req
}

func c06RouteLeader(o *hx.Out, rng *hx.Rng, shard int64, term int64, en bool) {
	n := newC06Node("lead", shard)
	defer n.close()
	l := c06StartLeader(n, term, en)
	var sessions []int64
	var trace []string
	failed := false
	for i, nreq := 0, 5+rng.Intn(20); i < nreq; i++ {
		switch x := rng.Intn(100); {
		case x < 12:
			r, err := l.lc.CreateSession(&proto.CreateSessionRequest{Shard: shard, SessionTimeoutMs: 60000, ClientIdentity: "client-1"})
			hx.Must(err)
			sessions = append(sessions, r.SessionId)
			trace = append(trace, fmt.Sprintf("create-session=%d", r.SessionId))
			o.Count("leader:create-session")
		case x < 18 && len(sessions) > 0:
			k := rng.Intn(len(sessions))
			_, err := l.lc.CloseSession(&proto.CloseSessionRequest{Shard: shard, SessionId: sessions[k]})
			hx.Must(err)
			trace = append(trace, fmt.Sprintf("close-session=%d", sessions[k]))
			sessions = append(sessions[:k], sessions[k+1:]...)
			o.Count("leader:close-session")
		default:
			req := c06LeaderRequest(rng, sessions)
			trace = append(trace, req.String())
			if _, err := l.write(req); err != nil {
				failed = true
				trace = append(trace, "=> "+err.Error())
				msg := err.Error()
				if len(msg) > 90 {
					msg = msg[:90]
				}
				o.Count("leader:write-error:" + msg)
			}
			o.Count("leader:write")
		}
	}
	hx.Must(l.lc.Close())
	if failed {
		o.Count("leader:case-with-failed-write(skipped)")
		return
	}
	live := n.dump()
	entries := n.readWal()
	ref := newEnv(shard, false)
	defer ref.close()
	hx.Must(ref.db.UpdateTerm(term, kv.TermOptions{NotificationsEnabled: en}))
	ref.db.EnableNotifications(en)
	for _, e := range entries {
		if err := c06ApplyLogEntry(ref.db, e); err != nil {
			o.Violation("determinism:routes-differ:leader-live-vs-log-replay", fmt.Sprintf("entry %d of the leader's own log fails on a fresh replica: %v; requests: %s", e.Offset, err, strings.Join(trace, " ; ")))
			return
		}
	}
	if replay := dumpText(ref.dump()); replay != live {
		o.Violation("determinism:routes-differ:leader-live-vs-log-replay", fmt.Sprintf("%s (live = the leader's database, other = its own log of %d entries replayed on a fresh kv.DB); shard=%d notifications=%v requests: %s",
			firstDiff(live, replay), len(entries), shard, en, strings.Join(trace, " ; ")))
	}
	o.Count("route:leader")
	o.CountN("leader:log-entries", len(entries))
}

// ---------------------------------------------------------------- the refutation witness through the public write path
// A batch that the leader accepts into the log and that fails at apply AFTER one of its puts took a version
// id: (1) first delta 0, (2) fewer deltas than the stored last key of the sequence has parts.
// If the leader refuses the batch before logging it, or if applying it does not fail, nothing is reported.
func c06LeaderWitness(o *hx.Out) {
	type probe struct {
		name  string
		setup []*proto.WriteRequest
		bad   *proto.WriteRequest
	}
	put := func(k string) *proto.PutRequest { return &proto.PutRequest{Key: k, Value: []byte("v")} }
	seq := func(ds ...uint64) *proto.PutRequest {
		return &proto.PutRequest{Key: "s", Value: []byte("v"), PartitionKey: pstr("p"), SequenceKeyDelta: ds}
	}
	probes := []probe{
		{"first-delta-zero", []*proto.WriteRequest{{Puts: []*proto.PutRequest{put("x")}}}, &proto.WriteRequest{Puts: []*proto.PutRequest{put("a"), seq(0)}}},
		{"missing-sequence-deltas", []*proto.WriteRequest{{Puts: []*proto.PutRequest{put("x")}}, {Puts: []*proto.PutRequest{seq(1, 1)}}}, &proto.WriteRequest{Puts: []*proto.PutRequest{put("a"), seq(1)}}},
	}
	for _, p := range probes {
		n := newC06Node("wit", 3)
		l := c06StartLeader(n, 1, true)
		for _, r := range p.setup {
			_, err := l.write(r)
			hx.Must(err)
		}
		before := l.lc.(interface{ CommitOffset() int64 }).CommitOffset()
		_, errBad := l.write(p.bad)
		resp, err := l.write(&proto.WriteRequest{Puts: []*proto.PutRequest{put("b")}})
		hx.Must(err)
		liveVer := resp.Puts[0].Version.VersionId
		hx.Must(l.lc.Close())
		entries := n.readWal()
		logged := false
		for _, e := range entries {
			lev := &proto.LogEntryValue{}
			hx.Must(lev.UnmarshalVT(e.Value))
			for _, w := range lev.GetRequests().Writes {
				if len(w.Puts) == 2 && w.Puts[0].Key == "a" {
					logged = true
				}
			}
		}
		// a replica re-created from the stored state right before `put b` (restart, snapshot): what would it assign?
		db, err := kv.NewDB(n.ns, n.shard, n.kvf, time.Hour, &oxtime.MockedClock{})
		hx.Must(err)
		g, err := db.Get(&proto.GetRequest{Key: "b"})
		hx.Must(err)
		storedVer := g.Version.VersionId
		hx.Must(db.Close())
		// the version ids stored before `b`: x (0) and the sequence keys; a replica that never executed the
		// failed batch assigns the next one
		expected := int64(len(p.setup))
		o.Extra["leader_witness_"+p.name] = fmt.Sprintf("bad-batch-error=%v logged=%v commit-before=%d version-of-b-live=%d stored=%d version-a-re-created-replica-assigns=%d", errBad, logged, before, liveVer, storedVer, expected)
		switch {
		case errBad == nil:
			o.Count("leader-witness:" + p.name + ":applied-without-error")
		case !logged:
			o.Count("leader-witness:" + p.name + ":refused-before-logging")
		case liveVer != expected:
			o.Count("leader-witness:" + p.name + ":version-ahead")
			o.Violation("determinism:version-counter-ahead-after-failed-batch", fmt.Sprintf("real leader, batch [put a; sequence put s %v] was appended to the log and failed at apply (%v) after `a` had taken a version id: the next put (b) got version %d; a replica re-created from the stored state before that put assigns %d",
				p.bad.Puts[1].SequenceKeyDelta, errBad, liveVer, expected))
		default:
			o.Count("leader-witness:" + p.name + ":no-divergence")
		}
		n.close()
	}
}

// c06ctllog <id> <shard> <term> <0|1> <W;W;...>   replay of a log through all controller routes
func c06ReplayCtlLog(o *hx.Out, t []string) {
	var shard, term int64
	fmt.Sscan(t[2], &shard)
	fmt.Sscan(t[3], &term)
	lg := &c06Log{shard: shard, term: term, en: t[4] == "1"}
	runCase(o, "seq", shard, false, "c06ctllog-replay", "", func(r *runner) {
		r.ref = nil // C12's sequential reference is not this check's
		r.do(fmt.Sprintf("T:%d:%d", term, b2i(lg.en)))
		r.do(fmt.Sprintf("E:%d", b2i(lg.en)))
		for _, op := range strings.Split(t[5], ";") {
			res := r.do(op)
			lg.entries = append(lg.entries, c06Entry{op: op, w: parseW(strings.Split(op, ":")), res: res})
		}
		lg.final = r.do("D")
	})
	lg.pivot = c06Pivot(lg.entries)
	rng := hx.NewRng(uint64(len(t[5])))
	for k := 0; k < 3; k++ {
		c06RouteFollower(o, rng.Fork(), lg)
		c06RouteFollowerSnapshot(o, rng.Fork(), lg)
		c06RouteElected(o, rng.Fork(), lg)
		c06RouteLifecycle(o, rng.Fork(), lg)
	}
}

func c06CtlMain(o *hx.Out, f hx.Flags) {
	t0 := time.Now()
	rng := hx.NewRng(f.Seed ^ 0xc06c)
	c06LeaderWitness(o)
	c06DamagedSnapshotProbe(o)
	for c := 0; c < f.N; c++ {
		crng := rng.Fork()
		lg := c06GenLog(o, crng, fmt.Sprintf("c06ctl#%d", c), 1+crng.Intn(20))
		if lg.failed || len(lg.entries) == 0 {
			o.Count("case:has-failed-entry(routes skipped)")
			continue
		}
		o.CountN("log-entries", len(lg.entries))
		c06RouteFollower(o, crng.Fork(), lg)
		c06RouteFollowerSnapshot(o, crng.Fork(), lg)
		c06RouteElected(o, crng.Fork(), lg)
		c06RouteLifecycle(o, crng.Fork(), lg)
		c06RouteLeader(o, crng.Fork(), lg.shard, lg.term, lg.en)
		c06RouteLeaderCancel(o, crng.Fork(), lg.shard, lg.term, lg.en)
	}
	o.Extra["go_seconds"] = time.Since(t0).Seconds()
}
