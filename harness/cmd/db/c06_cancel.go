package main

// C06 (-mode c06ctl), route LC: a live write whose caller goes away between the WAL sync and the commit.
//
// A real LeaderController with replication factor 2; the second replica is the harness (a stub stream whose
// acks the harness holds back). Writes are issued one at a time; for some of them the caller's context is
// cancelled AFTER the entry has been synced to the leader's WAL and pushed to the follower and BEFORE the
// follower's ack (which commits the entry) is released. Whatever the caller is told, the entry is in the log
// and gets committed: every replica applies it, so the leader must too. Afterwards the leader's database is
// compared with (1) its own log replayed on a fresh kv.DB and (2) a real FollowerController fed that log.
//
// SPEC VERDICTS  determinism:routes-differ:leader-live-vs-log-replay   determinism:routes-differ:leader-live-vs-follower

import (
	"context"
	"fmt"
	"io"
	"strings"
	"sync"
	"time"

	"google.golang.org/grpc/metadata"

	"github.com/oxia-db/oxia/proto"
	"github.com/oxia-db/oxia/server"
	"github.com/oxia-db/oxia/server/kv"

	"verif/harness/internal/hx"
)

// the follower side of the leader's replication stream: records what is pushed, acks when told to
type c06AckStub struct {
	ctx    context.Context
	mu     sync.Mutex
	pushed []*proto.Append
	acks   chan *proto.Ack
}

func (f *c06AckStub) Send(a *proto.Append) error {
	if f.ctx.Err() != nil {
		return f.ctx.Err()
	}
	f.mu.Lock()
	f.pushed = append(f.pushed, a)
	f.mu.Unlock()
	return nil
}

func (f *c06AckStub) Recv() (*proto.Ack, error) {
	select {
	case a := <-f.acks:
		return a, nil
	case <-f.ctx.Done():
		return nil, io.EOF
	}
}

func (f *c06AckStub) lastPushed() int64 {
	f.mu.Lock()
	defer f.mu.Unlock()
	if len(f.pushed) == 0 {
		return -1
	}
	return f.pushed[len(f.pushed)-1].Entry.Offset
}

func (*c06AckStub) Header() (metadata.MD, error) { return nil, nil }
func (*c06AckStub) Trailer() metadata.MD         { return nil }
func (*c06AckStub) CloseSend() error             { return nil }
func (f *c06AckStub) Context() context.Context   { return f.ctx }
func (*c06AckStub) SendMsg(any) error            { return nil }
func (*c06AckStub) RecvMsg(any) error            { return nil }

type c06OneFollowerRpc struct {
	mu   sync.Mutex
	stub *c06AckStub
}

func (r *c06OneFollowerRpc) GetReplicateStream(ctx context.Context, _ string, _ string, _ int64, _ int64) (proto.OxiaLogReplication_ReplicateClient, error) {
	r.mu.Lock()
	defer r.mu.Unlock()
	r.stub = &c06AckStub{ctx: ctx, acks: make(chan *proto.Ack, 4096)}
	return r.stub, nil
}
func (*c06OneFollowerRpc) SendSnapshot(context.Context, string, string, int64, int64) (proto.OxiaLogReplication_SendSnapshotClient, error) {
	return nil, fmt.Errorf("harness: no snapshot expected")
}
func (*c06OneFollowerRpc) Truncate(_ string, req *proto.TruncateRequest) (*proto.TruncateResponse, error) {
	return &proto.TruncateResponse{HeadEntryId: req.HeadEntryId}, nil
}
func (*c06OneFollowerRpc) Close() error { return nil }

func (r *c06OneFollowerRpc) get() *c06AckStub {
	r.mu.Lock()
	defer r.mu.Unlock()
	return r.stub
}

// feedRaw sends log entries as they are (the leader's offsets and timestamps) and waits until they are applied.
func (f *c06Follower) feedRaw(entries []*proto.LogEntry) bool {
	if len(entries) == 0 {
		return true
	}
	last := entries[len(entries)-1].Offset
	for _, e := range entries {
		f.ls.in <- &proto.Append{Term: f.term, Entry: e, CommitOffset: last}
	}
	return c06WaitFor(func() bool { return f.fc.CommitOffset() >= last })
}

func c06RouteLeaderCancel(o *hx.Out, rng *hx.Rng, shard int64, term int64, en bool) {
	n := newC06Node("leadc", shard)
	defer n.close()
	rpc := &c06OneFollowerRpc{}
	lc, err := server.NewLeaderController(c06SrvConfig, n.ns, n.shard, rpc, n.walf, n.kvf)
	hx.Must(err)
	_, err = lc.NewTerm(&proto.NewTermRequest{Namespace: n.ns, Shard: n.shard, Term: term, Options: &proto.NewTermOptions{EnableNotifications: en}})
	hx.Must(err)
	bctx, bcancel := context.WithTimeout(context.Background(), c06StepTimeout)
	_, err = lc.BecomeLeader(bctx, &proto.BecomeLeaderRequest{Namespace: n.ns, Shard: n.shard, Term: term, ReplicationFactor: 2,
		FollowerMaps: map[string]*proto.EntryId{"f1": {Term: -1, Offset: -1}}})
	bcancel()
	hx.Must(err)
	if !c06WaitFor(func() bool { return rpc.get() != nil }) {
		o.Count("not-started:leader-replication-stream") // timing: no verdict
		_ = lc.Close()
		return
	}
	stub := rpc.get()

	var trace []string
	ok := true
	nreq := 3 + rng.Intn(8)
	cancelled := 0
	for i := 0; i < nreq && ok; i++ {
		off := int64(i)
		req := c06LeaderRequest(rng, nil)
		cancelIt := rng.Chance(40) || (i == nreq-2 && cancelled == 0)
		ctx, cancel := context.WithCancel(context.Background())
		done := make(chan error, 1)
		go func() {
			_, err := lc.WriteBlock(ctx, req)
			done <- err
		}()
		// the entry is in the leader's WAL (synced) and has been pushed to the follower
		if !c06WaitFor(func() bool { return stub.lastPushed() >= off }) {
			select {
			case err := <-done:
				// refused before the log (validation): no offset was consumed
				trace = append(trace, fmt.Sprintf("#%d refused: %v", i, err))
				cancel()
				ok = false
				continue
			default:
			}
			o.Violation("determinism:routes-differ:leader-live-vs-log-replay", fmt.Sprintf("write #%d was never pushed to the follower; %s", i, strings.Join(trace, " ; ")))
			cancel()
			_ = lc.Close()
			return
		}
		how := "normal"
		if cancelIt {
			cancel() // the caller goes away: entry synced and replicated, not yet committed
			cancelled++
			how = "caller's context cancelled between WAL sync and commit"
			if rng.Chance(50) {
				time.Sleep(time.Duration(rng.Intn(3)) * time.Millisecond)
			}
		}
		stub.acks <- &proto.Ack{Offset: off} // the follower's ack commits the entry
		var werr error
		select {
		case werr = <-done:
		case <-time.After(c06StepTimeout):
			o.Violation("determinism:routes-differ:leader-live-vs-log-replay", fmt.Sprintf("write #%d did not complete after its entry was committed; %s", i, strings.Join(trace, " ; ")))
			cancel()
			_ = lc.Close()
			return
		}
		cancel()
		// a cancelled caller may be told anything; the entry is committed all the same
		if werr != nil && !cancelIt {
			ok = false // a normally completed write that fails at apply is C13's subject: not compared here
		}
		trace = append(trace, fmt.Sprintf("#%d@%d %s (%s) => err=%v", i, off, req.String(), how, werr))
		// the commit has to have been applied before the next write is issued (the leader applies in the ack path)
		c06WaitFor(func() bool { return server.VerifClusterLeaderCommitOffset(lc) >= off })
	}
	o.Count("leader-cancel:cases")
	o.CountN("leader-cancel:cancelled-writes", cancelled)
	// let the last apply finish: it runs in the goroutine that delivered the ack
	time.Sleep(2 * time.Millisecond)
	hx.Must(lc.Close())
	if !ok {
		o.Count("leader-cancel:case-with-failed-write(skipped)")
		return
	}
	live := n.dump()
	entries := n.readWal()
	ctxt := fmt.Sprintf("shard=%d term=%d notifications=%v, leader with replication factor 2, follower acks released by the harness; writes: %s", shard, term, en, strings.Join(trace, " ; "))

	// (1) the leader's own log on a fresh kv.DB
	ref := newEnv(shard, false)
	hx.Must(ref.db.UpdateTerm(term, kv.TermOptions{NotificationsEnabled: en}))
	ref.db.EnableNotifications(en)
	for _, e := range entries {
		if err := c06ApplyLogEntry(ref.db, e); err != nil {
			o.Count("leader-cancel:log-entry-fails-on-replay(skipped)")
			ref.close()
			return
		}
	}
	replay := dumpText(ref.dump())
	ref.close()
	if replay != live {
		o.Violation("determinism:routes-differ:leader-live-vs-log-replay", fmt.Sprintf("%s (live = the leader's database, other = its own log of %d committed entries replayed on a fresh kv.DB); %s",
			firstDiff(live, replay), len(entries), ctxt))
	}

	// (2) a real follower fed the same committed entries
	fn := newC06Node("leadcf", shard)
	defer fn.close()
	f := c06StartFollower(fn, term, en, true)
	if !f.attach() {
		c06NotStarted(o, f)
		return
	}
	applied := f.feedRaw(entries)
	f.stop()
	if !applied {
		o.Violation("determinism:routes-differ:leader-live-vs-follower", "the follower did not apply the leader's log; "+ctxt)
		return
	}
	if fd := fn.dump(); fd != live {
		o.Violation("determinism:routes-differ:leader-live-vs-follower", fmt.Sprintf("%s (live = the leader's database, other = a real FollowerController that applied the leader's %d committed entries); %s",
			firstDiff(live, fd), len(entries), ctxt))
	}
	o.Count("route:leader-cancel")
}
