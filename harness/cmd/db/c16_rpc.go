package main

// C16 through the public RPC: publicRpcServer.GetSequenceUpdates (server/public_rpc_server.go), the loop that forwards
// the waiter's values to the client's stream, on a real rf=1 LeaderController (real WAL + Pebble), with an in-memory
// stream (hook server/zz_verif_db16.go).  No model leg: the loop is the identity on the waiter's values, so
// c16_latest_observed composes unchanged; the specification is evaluated on what the stream received.
//
// -mode c16rpc
//	rpc <id> <shard> <prefix> <step>;...
//	    E:<0|1>         (first step only) the shard runs with NewTermOptions{EnableNotifications: 0|1}   -> ok
//	    Q:<d1>+<d2>..   sequence put on the prefix through WriteBlock            -> <generated key> | <STATUS> | err
//	    X:<i>           delete the i-th live generated key (0 = highest) through WriteBlock -> <key> | -
//	    T[:<prefix>]    attach a subscriber (GetSequenceUpdates RPC) on the prefix of the case / on another one -> ok
//	    K:<n>           the n-th subscriber goes away (its stream context is cancelled; the RPC returns)  -> ok
//	    QP:<prefix>:<deltas>  sequence put on another prefix                    -> <generated key> | <STATUS> | err
//	    O:<key>         a plain put of <key> elsewhere                           -> ok
//	  after T and after every Q (subscriber attached) the harness waits until the last key the stream received is the
//	  key that has to be observed (bounded wait, generous margin: it arrives within microseconds on the unchanged tree)
//	spec verdicts:
//	  seq:subscriber-did-not-observe-latest-key    the latest generated key (after T: the highest key of the prefix) did not
//	                                               become the stream's last value
//	  seq:subscriber-saw-key-never-generated       the stream received a key that no sequence put of the case generated
//	  seq:closed-subscriber-received-update        a stream whose RPC had returned received something afterwards
//	only the LIVE subscribers of the prefix are waited for; subscribers come and go in any order (several per prefix)

import (
	"context"
	"fmt"
	"strconv"
	"strings"
	"sync"
	"time"

	"google.golang.org/grpc/metadata"

	"github.com/oxia-db/oxia/common/compare"
	"github.com/oxia-db/oxia/proto"
	"github.com/oxia-db/oxia/server"

	"verif/harness/internal/hx"
)

func init() {
	modes["c16rpc"] = c16RpcMain
	replayKinds["rpc"] = func(o *hx.Out, t []string) {
		shard, err := strconv.ParseInt(t[2], 10, 64)
		hx.Must(err)
		c16RpcCase(o, shard, unhexs(t[3]), "replay", "", func(r *rpcEnv) {
			for _, st := range strings.Split(t[4], ";") {
				r.do(st)
			}
		})
	}
}

const c16RpcWait = 3 * time.Second

type seqStream struct {
	ctx     context.Context
	prefix  string
	mu      sync.Mutex
	got     []string
	notify  chan struct{}
	closed  bool
	atClose int
}

func (*seqStream) SetHeader(metadata.MD) error  { return nil }
func (*seqStream) SendHeader(metadata.MD) error { return nil }
func (*seqStream) SetTrailer(metadata.MD)       {}
func (*seqStream) SendMsg(any) error            { return nil }
func (*seqStream) RecvMsg(any) error            { return nil }
func (s *seqStream) Context() context.Context   { return s.ctx }
func (s *seqStream) Send(r *proto.GetSequenceUpdatesResponse) error {
	s.mu.Lock()
	s.got = append(s.got, r.HighestSequenceKey)
	s.mu.Unlock()
	select {
	case s.notify <- struct{}{}:
	default:
	}
	return nil
}
func (s *seqStream) last() (string, int) {
	s.mu.Lock()
	defer s.mu.Unlock()
	if len(s.got) == 0 {
		return "", 0
	}
	return s.got[len(s.got)-1], len(s.got)
}

type rpcEnv struct {
	l         *leaderEnv
	prefix    string
	live      []string // generated keys still stored, in generation order
	generated map[string]bool
	streams   []*seqStream
	cancels   []context.CancelFunc
	dones     []chan error
	ts        uint64
	failed    bool
}

var c16RpcMisses int

func (r *rpcEnv) write(w *wreq) (*proto.WriteResponse, error) {
	ctx, cancel := context.WithTimeout(context.Background(), c13Step)
	defer cancel()
	return r.l.lc.WriteBlock(ctx, w.toProto())
}

// highest live key of the prefix (what a new subscriber starts from)
func (r *rpcEnv) highest() string {
	h := ""
	for _, k := range r.live {
		if h == "" || compare.CompareWithSlash([]byte(k), []byte(h)) > 0 {
			h = k
		}
	}
	return h
}

// expect waits until the last value of every attached stream from index `from` on is `key`
func (r *rpcEnv) expect(from int, prefix string, key string, why string) {
	if key == "" || r.failed {
		return // (after a first miss the rest of the case is not waited for)
	}
	wait := c16RpcWait
	if c16RpcMisses >= 5 {
		wait = 200 * time.Millisecond // the property is already refuted several times over: do not spend the budget waiting
	}
	ctxt := fmt.Sprintf("%s prefix %s steps [%s]", r.l.tag, hexs(r.prefix), strings.Join(r.l.ops, ";"))
	for i, s := range r.streams {
		if s.closed {
			if _, n := s.last(); n != s.atClose {
				r.l.o.Violation("seq:closed-subscriber-received-update", fmt.Sprintf("%s: subscriber #%d had left with %d values, it now has %d", ctxt, i, s.atClose, n))
			}
			continue
		}
		if i < from || s.prefix != prefix {
			continue
		}
		deadline := time.After(wait)
		for {
			last, _ := s.last()
			if last == key {
				break
			}
			timedOut := false
			select {
			case <-s.notify:
			case <-deadline:
				timedOut = true
			}
			if timedOut {
				r.failed = true
				c16RpcMisses++
				last, n := s.last()
				r.l.o.Violation("seq:subscriber-did-not-observe-latest-key", fmt.Sprintf("%s: %s %q did not reach subscriber #%d within %v: its last value is %q (%d values received)",
					ctxt, why, key, i, wait, last, n))
				break
			}
		}
		s.mu.Lock()
		for _, k := range s.got {
			if !r.generated[k] {
				r.l.o.Violation("seq:subscriber-saw-key-never-generated", fmt.Sprintf("%s: subscriber #%d received %q", ctxt, i, k))
				break
			}
		}
		s.mu.Unlock()
	}
}

func (r *rpcEnv) do(step string) string {
	f := strings.Split(step, ":")
	res := "ok"
	r.ts++
	if !r.l.started {
		// E:<0|1> as first step: the leader is started with NewTermOptions{EnableNotifications: 0|1}
		r.l.started = true
		if f[0] == "E" {
			r.l.noNotif = f[1] == "0"
		}
		hx.Must(r.l.start(1))
	}
	switch f[0] {
	case "E":
	case "Q", "QP":
		p := putOp{key: r.prefix, value: []byte("v"), part: pstr("pk")}
		dtxt := f[1]
		if f[0] == "QP" {
			p.key, dtxt = unhexs(f[1]), f[2]
		}
		for _, d := range strings.Split(dtxt, "+") {
			v, err := strconv.ParseUint(d, 10, 64)
			hx.Must(err)
			p.deltas = append(p.deltas, v)
		}
		resp, err := r.write(&wreq{ts: r.ts, puts: []putOp{p}})
		switch {
		case err != nil:
			res = "err"
		case resp.Puts[0].Key != nil:
			k := *resp.Puts[0].Key
			res = hexs(k)
			r.generated[k] = true
			if p.key == r.prefix {
				r.live = append(r.live, k)
			}
		default:
			res = resp.Puts[0].Status.String()
		}
		r.l.ops = append(r.l.ops, step)
		r.l.res = append(r.l.res, res)
		if resp != nil && err == nil && resp.Puts[0].Key != nil {
			r.expect(0, p.key, *resp.Puts[0].Key, "the key generated by the last sequence put")
		}
		return res
	case "X":
		i, err := strconv.Atoi(f[1])
		hx.Must(err)
		if len(r.live) == 0 {
			res = "-"
			break
		}
		// i = 0: the highest; otherwise the i-th from the top
		idx := len(r.live) - 1 - i%len(r.live)
		k := r.live[idx]
		_, err = r.write(&wreq{ts: r.ts, dels: []delOp{{key: k}}})
		hx.Must(err)
		r.live = append(r.live[:idx], r.live[idx+1:]...)
		res = hexs(k)
	case "O":
		_, err := r.write(&wreq{ts: r.ts, puts: []putOp{{key: unhexs(f[1]), value: []byte("x")}}})
		hx.Must(err)
	case "K":
		n, err := strconv.Atoi(f[1])
		hx.Must(err)
		if n < len(r.streams) && !r.streams[n].closed {
			r.cancels[n]()
			select {
			case <-r.dones[n]:
			case <-time.After(c16RpcWait):
				r.l.o.Violation("seq:subscriber-rpc-does-not-return", fmt.Sprintf("%s: GetSequenceUpdates of subscriber #%d did not return after its context was cancelled", r.l.tag, n))
			}
			_, r.streams[n].atClose = r.streams[n].last()
			r.streams[n].closed = true
		}
	case "T":
		prefix := r.prefix
		if len(f) > 1 {
			prefix = unhexs(f[1])
		}
		ctx, cancel := context.WithCancel(context.Background())
		s := &seqStream{ctx: ctx, prefix: prefix, notify: make(chan struct{}, 1)}
		done := make(chan error, 1)
		go func() {
			done <- server.VerifPublicGetSequenceUpdates(r.l.lc, &proto.GetSequenceUpdatesRequest{Shard: r.l.shard, Key: prefix}, s)
		}()
		r.streams, r.cancels, r.dones = append(r.streams, s), append(r.cancels, cancel), append(r.dones, done)
		r.l.ops = append(r.l.ops, step)
		r.l.res = append(r.l.res, res)
		if prefix == r.prefix {
			r.expect(len(r.streams)-1, prefix, r.highest(), "the highest key of the prefix at subscription time")
		}
		return res
	default:
		panic("rpc: unknown step " + step)
	}
	r.l.ops = append(r.l.ops, step)
	r.l.res = append(r.l.res, res)
	return res
}

func c16RpcCase(o *hx.Out, shard int64, prefix string, tag string, ntKey string, body func(r *rpcEnv)) {
	leaderEnvInMemory = true
	l := newLeaderEnv(o, shard, tag)
	leaderEnvInMemory = false
	defer l.close()
	r := &rpcEnv{l: l, prefix: prefix, generated: map[string]bool{}, ts: 1000}
	body(r)
	for i, c := range r.cancels {
		c()
		if r.streams[i].closed {
			continue
		}
		select {
		case <-r.dones[i]:
		case <-time.After(c16RpcWait):
		}
	}
	o.Case("rpc", fmt.Sprintf("%d %s %s", shard, hexs(prefix), strings.Join(l.ops, ";")), strings.Join(l.res, ";"), ntKey)
}

func c16RpcMain(o *hx.Out, f hx.Flags) {
	rng := hx.NewRng(f.Seed ^ 0x16c)
	for c := 0; c < f.N; c++ {
		crng := rng.Fork()
		shard := int64(1 + crng.Intn(9))
		prefix := hx.Pick(crng, c16Prefixes)
		c16RpcCase(o, shard, prefix, fmt.Sprintf("c16rpc#%d", c), fmt.Sprintf("%d", crng.U64()), func(r *rpcEnv) {
			nd := 1 + crng.Intn(2)
			q := func() string {
				var ds []string
				for k := 0; k < nd; k++ {
					ds = append(ds, strconv.Itoa(1+crng.Intn(3)))
				}
				return "Q:" + strings.Join(ds, "+")
			}
			if crng.Chance(30) { // what subscribers observe must not depend on the notifications switch of the shard
				r.do("E:0")
				o.Count("c16rpc:notifications-disabled")
			}
			other := hx.Pick(crng, c16Prefixes)
			if other == prefix {
				other = prefix + "2"
			}
			openSubs := func() []int {
				var xs []int
				for i, s := range r.streams {
					if !s.closed {
						xs = append(xs, i)
					}
				}
				return xs
			}
			if crng.Chance(30) { // A and B subscribe, A leaves, C subscribes, puts, B leaves, puts
				r.do("T")
				r.do("T")
				r.do("K:0")
				r.do("T")
				r.do(q())
				r.do(q())
				r.do("K:1")
				r.do(q())
				o.Count("c16rpc:scripted-leave-and-join")
			}
			attachAt := crng.Intn(8) // the subscriber comes before, in the middle of, or after the first writes
			steps := 8 + crng.Intn(12)
			for i := 0; i < steps; i++ {
				if i == attachAt || (i > attachAt && crng.Chance(12)) {
					if crng.Chance(20) {
						r.do("T:" + hexs(other))
					} else {
						r.do("T")
					}
					o.Count("c16rpc:subscribe")
				}
				if os := openSubs(); len(os) > 0 && crng.Chance(12) {
					r.do(fmt.Sprintf("K:%d", hx.Pick(crng, os)))
					o.Count("c16rpc:subscriber-leaves")
				}
				switch x := crng.Intn(100); {
				case x < 8:
					r.do("QP:" + hexs(other) + ":" + strconv.Itoa(1+crng.Intn(3)))
				case x < 55:
					r.do(q())
					o.Count("c16rpc:sequence-put")
				case x < 75:
					// delete the highest key: the next generated key is not greater than what the subscriber saw before
					r.do("X:0")
					o.Count("c16rpc:delete-highest")
				case x < 88:
					r.do(fmt.Sprintf("X:%d", 1+crng.Intn(3)))
					o.Count("c16rpc:delete-middle")
				default:
					r.do("O:" + hexs(hx.Pick(crng, []string{"a", "other", "zz/y"})))
				}
			}
			if len(openSubs()) == 0 {
				r.do("T")
			}
			r.do(q())
		})
	}
}
