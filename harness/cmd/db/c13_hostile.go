package main

// C13 — "every request accepted into the log can be applied by every replica".
//
// -mode c13db      the hostile stream (every field value a client can put in a WriteRequest) through the real
//                  kv.DB.ProcessWrite with the real callback chain, class-level comparison with the model:
//                    hseq <id> <shard> <thr> <ops>      (grammar of main.go; W results ok:<statuses> | err | panic)
//                    val  <id> <W-op>                   server.validateWriteRequest  ->  accept | reject
//                  spec verdicts (evaluated on the implementation alone):
//                    apply:infrastructure-error-on-logged-request:<class>   a request the leader's validation
//                        accepts made ProcessWrite fail (<class> = errKind of main.go)
//                    apply:panic                                            ProcessWrite panicked
//                    validate:rejects-plain-user-request                    a request without '__oxia/' keys, without
//                        sequence deltas and with ranges between user keys without '/' was refused
// -mode c13leader  the same stream through a real rf=1 LeaderController (c13_leader.go).
//
// NOT GENERATED for ProcessWrite (nondeterministic in Pebble, README "empty bounds"): a delete-range with both
// bounds empty.  It IS generated for `val` and for the leader, where validation refuses it.

import (
	"fmt"
	"math"
	"strings"

	"github.com/oxia-db/oxia/server"

	"verif/harness/internal/hx"
)

func init() {
	modes["c13db"] = c13DbMain
	replayKinds["val"] = func(o *hx.Out, t []string) { c13RunVal(o, t[2]) }
}

var c13SeqPrefixes = []string{"s", "s", "q/x", "", "__oxia/s", "a", "s-+", "__oxia/commit", "t-"}
var c13Deltas = []uint64{0, 1, 1, 2, 3, math.MaxUint64, math.MaxUint64 - 1, 1 << 63, 10000000000000000000}
var c13UserNoSlash = []string{"a", "b", "c", "d", "s", "s-+", "s--", "s-00000000000000000001x", "s-7", "t", "zz", "A", "0", "-", "_", "__oxia", "a b", "\xffz", "k\x01x"}

// Keys NEAR the internal prefix, for every key / bound position: first segments around "__oxia" in the byte order
// (a byte below '/', '/' itself, bytes above it, shorter and longer strings), with and without '/' and sub-segments.
// A validation that compares whole strings instead of first segments differs exactly here: "__oxia-tmp/" < "__oxia/"
// as strings, but in the key order the range ["a", "__oxia-tmp/") contains every internal key.
var c13NearSegments = []string{"__oxia", "__oxi", "__oxia-", "__oxia.", "__oxia+x", "__oxia ", "__oxia0", "__oxib", "__oxia-tmp", "_", "__",
	"__oxia%", "__oxia\x00", "__oxia~", "__oxiA", "__oxh\xff"}
var c13NearForms = []string{"", "/", "/x", "/notifications/", "//", "/\xff"}

func c13NearKeys() []string {
	var ks []string
	for _, seg := range c13NearSegments {
		for _, f := range c13NearForms {
			ks = append(ks, seg+f)
		}
	}
	for b := 0; b <= 0x30; b++ { // every byte up to '0' right after "__oxia"
		ks = append(ks, "__oxia"+string([]byte{byte(b)}), "__oxia"+string([]byte{byte(b)})+"/", "__oxia"+string([]byte{byte(b)})+"/z")
	}
	return ks
}

var c13Near = c13NearKeys()

// c13Request draws one request. level: 0 = any field value (hostile), 1 = well-formed user request that
// may still hit state-dependent behaviour (sequence arity, odd suffixes), 2 = plain user request.
func c13Request(rng *hx.Rng, level int, allowEmptyRange bool) *wreq {
	w := &wreq{}
	hk := func() string {
		switch {
		case level >= 1:
			if rng.Chance(70) {
				return hx.Pick(rng, c13UserNoSlash)
			}
			return hx.Pick(rng, userKeys)
		case rng.Chance(30):
			return hx.Pick(rng, userKeys)
		case rng.Chance(30):
			return hx.Pick(rng, c13Near)
		}
		return hx.Pick(rng, hostileKeys)
	}
	for j, np := 0, rng.Intn(3); j < np; j++ {
		p := putOp{key: hk(), value: []byte(hx.Pick(rng, values))}
		if rng.Chance(30) {
			p.exp = p64(hx.Pick(rng, []int64{-1, 0, 1, 5, -2}))
		}
		if rng.Chance(20) {
			p.sess = p64(hx.Pick(rng, []int64{1, 3, 0, -1, 900}))
		}
		if level < 2 && rng.Chance(40) {
			if level == 1 {
				p.key = hx.Pick(rng, []string{"s", "s", "q/x", "t-", "a"})
			} else {
				p.key = hx.Pick(rng, c13SeqPrefixes)
			}
			nd := 1 + rng.Intn(3)
			if level == 0 {
				nd = rng.Intn(4)
			}
			for k := 0; k < nd; k++ {
				d := hx.Pick(rng, c13Deltas)
				if level == 1 && k == 0 && d == 0 {
					d = 1
				}
				p.deltas = append(p.deltas, d)
			}
			if level == 1 || rng.Chance(60) {
				// present, possibly EMPTY: an optional proto field that is set to its zero value is not absent
				p.part = pstr(hx.Pick(rng, []string{"pk", "pk", "", "a"}))
			}
			if level == 1 {
				p.exp = nil
				if rng.Chance(5) {
					p.exp = p64(-1)
				}
			}
		}
		if p.part == nil && rng.Chance(10) {
			p.part = pstr(hx.Pick(rng, []string{"", "pk"}))
		}
		if rng.Chance(20) {
			p.ident = pstr(hx.Pick(rng, []string{"", "client-1"}))
		}
		if rng.Chance(25) {
			p.idx = [][2]string{{hx.Pick(rng, []string{"a", "a/b", "", "n\x01"}), hx.Pick(rng, []string{"k", "k\x01x", "", "k/z", "\n"})}}
		}
		w.puts = append(w.puts, p)
	}
	for j, nd := 0, rng.Intn(3); j < nd; j++ {
		d := delOp{key: hk()}
		if rng.Chance(30) {
			d.exp = p64(hx.Pick(rng, []int64{-1, 0, 1}))
		}
		w.dels = append(w.dels, d)
	}
	if rng.Chance(40) {
		a, b := hk(), hk()
		if level == 0 && rng.Chance(25) {
			a, b = hx.Pick(rng, []string{"A/", "", "a", "__oxia/notifications/", "0/"}), hx.Pick(rng, []string{"z/", "zz/", "__oxia/notifications0", "__oxia/", "~/x"})
		}
		if level == 0 && rng.Chance(30) {
			// a user-looking start with an end (or start) next to the internal prefix
			a, b = hx.Pick(rng, []string{"a", "", "A/", "0/", "__oxi/", hx.Pick(rng, c13Near)}), hx.Pick(rng, c13Near)
			if rng.Chance(20) {
				a, b = b, hx.Pick(rng, []string{"z/", "zz/", "~/x", "__oxib/", "a"})
			}
		}
		if level == 0 && rng.Chance(8) {
			a, b = "", ""
		}
		if a == "" && b == "" && !allowEmptyRange {
			b = "a"
		}
		w.ranges = append(w.ranges, rangeOp{a, b})
	}
	return w
}

// c13OptionalSweep: one put per combination of the optional fields of a PutRequest being absent / present with the
// zero value / present with another value, with and without sequence deltas, then the same for deletes.
// (absent and present-zero are different requests: ExpectedVersionId 0, SessionId 0, ClientIdentity "", PartitionKey "")
func c13OptionalSweep() []*wreq {
	var res []*wreq
	parts := []*string{nil, pstr(""), pstr("p")}
	exps := []*int64{nil, p64(0), p64(-1)}
	sess := []*int64{nil, p64(0)}
	idents := []*string{nil, pstr("")}
	deltas := [][]uint64{nil, {1}, {0}, {0, 1}, {2, 0}}
	n := 0
	for _, pa := range parts {
		for _, ex := range exps {
			for _, se := range sess {
				for _, id := range idents {
					for _, de := range deltas {
						n++
						res = append(res, &wreq{puts: []putOp{{key: fmt.Sprintf("o%d", n), value: nil, part: pa, exp: ex, sess: se, ident: id, deltas: de}}})
					}
				}
			}
		}
	}
	for _, ex := range exps {
		res = append(res, &wreq{dels: []delOp{{key: "o2", exp: ex}, {key: "", exp: ex}}})
	}
	return res
}

// plainUser: a request nobody could object to (used for the completeness side of the validation verdict)
func plainUser(w *wreq) bool {
	for _, p := range w.puts {
		if strings.HasPrefix(p.key, internalPrefix) || len(p.deltas) > 0 {
			return false
		}
		if !c15PutRepresentable(p) { // index declarations the key layout cannot represent are refused (O-45, c15_leader.go)
			return false
		}
	}
	for _, d := range w.dels {
		if strings.HasPrefix(d.key, internalPrefix) {
			return false
		}
	}
	for _, r := range w.ranges {
		if hasSlash(r.start) || hasSlash(r.end) || (r.start == "" && r.end == "") {
			return false
		}
	}
	return true
}

func c13Accepted(w *wreq) bool { return server.VerifValidateWriteRequest(w.toProto()) == nil }

// c13DoWrite is runner.execWrite for the hostile stream, plus the verdict "accepted by the validation =>
// ProcessWrite does not fail".
func c13DoWrite(r *runner, w *wreq) string {
	r.nreq++
	op := w.String()
	ctx := fmt.Sprintf("%s request#%d %s", r.caseTag, r.nreq, op)
	accepted := c13Accepted(w)
	resp, err, panicked := r.processWrite(w.toProto(), w.offset, w.ts)
	r.lastOff = w.offset
	var res string
	switch {
	case panicked:
		r.o.Count("write:panic")
		r.o.Violation("apply:panic", ctx+": ProcessWrite panicked")
		res = "panic"
	case err != nil:
		k := errKind(err)
		r.o.Count("write:err:" + k)
		if accepted {
			r.o.Count("write:err-after-validation:" + k)
			r.o.Violation("apply:infrastructure-error-on-logged-request:"+k,
				ctx+": accepted by validateWriteRequest, ProcessWrite failed: "+err.Error())
		}
		res = "err"
	default:
		r.o.Count("write:ok")
		if accepted {
			r.o.Count("write:ok-after-validation")
		}
		res = "ok:" + statusesOf(resp.Puts, putStatus) + ":" + statusesOf(resp.Deletes, delStatus) + ":" + statusesOf(resp.DeleteRanges, rangeStatus)
	}
	r.ops = append(r.ops, op)
	r.res = append(r.res, res)
	return res
}

func c13RunVal(o *hx.Out, op string) {
	w := parseW(strings.Split(op, ":"))
	res := "reject"
	if c13Accepted(w) {
		res = "accept"
	} else if plainUser(w) {
		o.Violation("validate:rejects-plain-user-request", op+": refused by validateWriteRequest")
	}
	o.Count("val:" + res)
	o.Case("val", op, res, op)
}

func c13DbMain(o *hx.Out, f hx.Flags) {
	rng := hx.NewRng(f.Seed)
	for c := 0; c < f.N; c++ {
		crng := rng.Fork()
		shard := int64(1 + crng.Intn(9))
		flavour := crng.Intn(3) // 0 hostile, 1 mixed, 2 mostly well-formed
		runCase(o, "hseq", shard, false, fmt.Sprintf("c13case#%d", c), fmt.Sprintf("%d", crng.U64()), func(r *runner) {
			off, ts := int64(-1), uint64(1000)
			if crng.Chance(10) {
				r.do("E:0")
			}
			for i, nreq := 0, 20+crng.Intn(30); i < nreq; i++ {
				level := 0
				if flavour > 0 && crng.Chance(35*flavour) {
					level = 1 + crng.Intn(2)
				}
				w := c13Request(crng, level, false)
				off++
				ts += 5
				w.offset, w.ts = off, ts
				res := c13DoWrite(r, w)
				o.Count("hostile:" + strings.SplitN(res, ":", 2)[0])
				if crng.Chance(15) {
					c13RunVal(o, w.String())
				}
			}
		})
	}
	// every combination of absent / present-zero optional fields: through the validation and through ProcessWrite
	runCase(o, "hseq", 3, false, "c13optional", "optional", func(r *runner) {
		for i, w := range c13OptionalSweep() {
			w.offset, w.ts = int64(i), uint64(1000+i)
			c13RunVal(o, w.String())
			c13DoWrite(r, w)
		}
	})
	// the validation alone, on requests that are never run (both bounds empty included)
	for i := 0; i < 4*f.N; i++ {
		w := c13Request(rng, rng.Intn(3), true)
		w.offset, w.ts = int64(i), 7
		c13RunVal(o, w.String())
	}
	// ... and swept around the internal prefix: every near key as put key, delete key, range start and range end
	// (against a fixed set of opposite bounds), and all pairs of the core near keys
	opposite := []string{"", "a", "A/", "z/", "zz", "__oxia/", "__oxia/z", "__oxi/", "__oxib/", "~/x"}
	for _, k := range c13Near {
		c13RunVal(o, (&wreq{puts: []putOp{{key: k, value: []byte("v")}}}).String())
		c13RunVal(o, (&wreq{dels: []delOp{{key: k}}}).String())
		c13RunVal(o, (&wreq{puts: []putOp{{key: k, value: []byte("v"), part: pstr("p"), deltas: []uint64{1}}}}).String())
		for _, x := range opposite {
			c13RunVal(o, (&wreq{ranges: []rangeOp{{x, k}}}).String())
			c13RunVal(o, (&wreq{ranges: []rangeOp{{k, x}}}).String())
		}
	}
	core := c13Near[:len(c13NearSegments)*len(c13NearForms)]
	for i := 0; i < 40*f.N/100+1; i++ { // a sample of the pairs, growing with -n
		for j := 0; j < 25; j++ {
			c13RunVal(o, (&wreq{ranges: []rangeOp{{hx.Pick(rng, core), hx.Pick(rng, core)}}}).String())
		}
	}
}
