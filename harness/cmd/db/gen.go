package main

// Generators: every random choice derives from the seed. genValid produces the stream C12 quantifies over
// (user keys and ranges outside "__oxia/", plus the system requests of the session manager); genHostile the
// complement (used by C13); genPure the helper-function cases.

import (
	"fmt"
	"math"
	"net/url"
	"sort"
	"strings"

	"github.com/oxia-db/oxia/proto"
	"github.com/oxia-db/oxia/server"

	"verif/harness/internal/hx"
)

var userKeys = []string{
	"a", "b", "c", "d", "a/b", "a/c", "a/b/c", "b/a", "a/", "a-", "a0", "a.", "a%2F", "k\x01x", "\xffz", "a b", "\xc3\xa9",
	"A", "Z/z", "0", "0/1", "-", ".", "%", "~t", "a,b", "a;b", "x?y", "a//b", "/", "//", "/a", "_", "__oxia", "__oxib/x", "_/x",
	"s-0x", "s--", "m/n/o/p", "zz", "zz/", "zz/y",
}
// comparer stress (AbbreviatedKey vs Compare inside indexed batches): first segments longer than 8 bytes with a
// later '/', the same 8-byte prefix with and without '/', segment bytes below '/' ('-', '.'), depth differences
var stressSegs = []string{"zzzzzzzzz", "abcdefghi", "longsegment", "abcdefgh", "zzzzzzzz"}
var stressKeys = []string{
	"zzzzzzzzz/x", "zzzzzzzzz/y/1", "zzzzzzzzz", "zzzzzzzz/x", "zzzzzzz/x", "zzzzzzzzz-/x", "zzzzzzzzz./x", "zzzzzzzzzz/x",
	"abcdefghi/x", "abcdefghi", "abcdefgh/i", "abcdefgh-i/x", "abcdefgh.i/x", "abcdefghij/k/l", "abcdefghi/x/y", "abcdefgh",
	"longsegment/a", "longsegment/a/b", "longsegment", "longsegment0/a", "longsegment-/a", "longsegment./a", "longsegmen/t",
	"a/y", "b/zzzzzzzzz/x", "y/longsegment/a", "zzzzzzzzz/~", "zzzzzzzzz/", "a", "z",
}
var seqPrefixes = []string{"s", "q/x", "s-0", "t", "a/b", "zzzzzzzzz/q", "longsegment/s"}
var idxNames = []string{"a", "a-", "a0", "b"}
var idxKeys = []string{"k", "k/1", "k/2", "m", "a", "a/b", "z", "0", "k-", "k0", "\xffx", "m n"}
var values = []string{"", "v", "value-1", "\x00\x01\xff", "xxxxxxxxxxxxxxxxxxxxxxxxxxxxxxxx"}

func hasSlash(s string) bool { return strings.IndexByte(s, '/') >= 0 }
func seg1(s string) string   { return s[:strings.IndexByte(s, '/')] }

// sweepsInternal: could [start, end) contain a key with prefix "__oxia/"?  Under CompareWithSlash those keys
// form one contiguous block: above every key without '/', between the keys whose first segment is below /
// above "__oxia".
func sweepsInternal(start, end string) bool {
	if strings.HasPrefix(start, internalPrefix) || strings.HasPrefix(end, internalPrefix) {
		return true
	}
	if !hasSlash(end) || seg1(end) < "__oxia" {
		return false
	}
	if hasSlash(start) && seg1(start) > "__oxia" {
		return false
	}
	return true
}

type gen struct {
	rng      *hx.Rng
	r        *runner
	o        *hx.Out
	off      int64
	ts       uint64
	sessions []int64        // created session ids (alive or closed)
	seqParts map[string]int // deltas used so far per sequence prefix
}

func p64(v int64) *int64   { return &v }
func pstr(v string) *string { return &v }

func (g *gen) nextOffTs() (int64, uint64) {
	g.off++
	g.ts += uint64(1 + g.rng.Intn(20))
	return g.off, g.ts
}

func (g *gen) write(w *wreq) string {
	w.offset, w.ts = g.nextOffTs()
	for _, p := range w.puts {
		switch {
		case len(p.deltas) > 0:
			g.o.Count("put:sequence")
		case p.sess != nil:
			g.o.Count("put:session")
		case p.exp != nil:
			g.o.Count("put:conditional")
		default:
			g.o.Count("put:plain")
		}
		if len(p.idx) > 0 {
			g.o.Count("put:with-indexes")
		}
	}
	g.o.CountN("delete", len(w.dels))
	g.o.CountN("delete-range", len(w.ranges))
	res := g.r.do(w.String())
	if g.rng.Chance(85) {
		g.r.do("H")
	}
	return res
}

func (g *gen) liveKeys() []string {
	var ks []string
	for k := range g.r.ref.recs {
		if !strings.HasPrefix(k, internalPrefix) {
			ks = append(ks, k)
		}
	}
	sort.Strings(ks)
	return ks
}

func (g *gen) someKey() string {
	if g.rng.Chance(6) {
		return hx.Pick(g.rng, stressKeys)
	}
	if lk := g.liveKeys(); len(lk) > 0 && g.rng.Chance(55) {
		return hx.Pick(g.rng, lk)
	}
	return hx.Pick(g.rng, userKeys)
}

// expected version for a conditional operation on key k: right, wrong, -1, 0
func (g *gen) expFor(k string) *int64 {
	cur := g.r.ref.recs[k]
	switch g.rng.Intn(6) {
	case 0:
		return p64(-1)
	case 1:
		if cur != nil {
			return p64(cur.ver + 1)
		}
		return p64(0)
	case 2:
		if cur != nil && cur.ver > 0 {
			return p64(cur.ver - 1)
		}
		return p64(7)
	default:
		if cur != nil {
			return p64(cur.ver)
		}
		return p64(-1)
	}
}

func (g *gen) indexes() [][2]string {
	var ix [][2]string
	for i, n := 0, g.rng.Intn(4); i < n; i++ {
		ix = append(ix, [2]string{hx.Pick(g.rng, idxNames), hx.Pick(g.rng, idxKeys)})
	}
	return ix
}

func (g *gen) sessionId() int64 {
	if len(g.sessions) > 0 && g.rng.Chance(85) {
		return hx.Pick(g.rng, g.sessions)
	}
	return int64(900 + g.rng.Intn(3)) // never created
}

func (g *gen) deltas(prefix string, n int) []uint64 {
	var ds []uint64
	for i := 0; i < n; i++ {
		var d uint64
		switch g.rng.Intn(12) {
		case 0:
			d = 10000000000000000000
		case 1:
			d = 1 << 63
		case 2:
			d = math.MaxUint64
		case 3:
			d = 0
		default:
			d = uint64(1 + g.rng.Intn(5))
		}
		if i == 0 && d == 0 {
			d = 1
		}
		ds = append(ds, d)
	}
	return ds
}

func (g *gen) put() putOp {
	p := putOp{key: g.someKey(), value: []byte(hx.Pick(g.rng, values))}
	if g.rng.Chance(25) {
		p.ident = pstr(hx.Pick(g.rng, []string{"", "client-1", "id/2"}))
	}
	if g.rng.Chance(20) {
		p.part = pstr(hx.Pick(g.rng, []string{"", "pk", "a"}))
	}
	switch x := g.rng.Intn(100); {
	case x < 30: // conditional
		p.exp = g.expFor(p.key)
	case x < 45: // session
		p.sess = p64(g.sessionId())
		if g.rng.Chance(25) {
			p.exp = g.expFor(p.key)
		}
	case x < 58: // sequence
		p.key = hx.Pick(g.rng, seqPrefixes)
		n := g.seqParts[p.key]
		if n == 0 {
			n = 1 + g.rng.Intn(3)
		} else if g.rng.Chance(15) {
			n++
		}
		if n > g.seqParts[p.key] {
			g.seqParts[p.key] = n
		}
		p.deltas = g.deltas(p.key, n)
		p.part = pstr("pk")
		if g.rng.Chance(3) {
			p.exp = p64(-1) // not allowed on sequential keys: UNEXPECTED_VERSION_ID
		}
		if g.rng.Chance(20) {
			p.sess = p64(g.sessionId())
		}
	}
	if g.rng.Chance(30) {
		p.idx = g.indexes()
	}
	return p
}

func (g *gen) del() delOp {
	d := delOp{key: g.someKey()}
	if g.rng.Chance(40) {
		d.exp = g.expFor(d.key)
	}
	return d
}

func (g *gen) userRange() (rangeOp, bool) {
	for try := 0; try < 20; try++ {
		a, b := g.someKey(), g.someKey()
		if g.rng.Chance(10) {
			a, b = b, a
		}
		if a == "" && b == "" {
			continue
		}
		if !sweepsInternal(a, b) && b != "" {
			return rangeOp{a, b}, true
		}
	}
	return rangeOp{}, false
}

// several operations on one key inside one request
func (g *gen) sameKeyBatch(w *wreq) {
	k := g.someKey()
	guess := g.r.ref.lastVer + 1
	for i, n := 0, 2+g.rng.Intn(3); i < n; i++ {
		p := putOp{key: k, value: []byte(fmt.Sprintf("b%d", i))}
		switch g.rng.Intn(5) {
		case 0:
			p.exp = p64(guess - 1) // the version the previous put of this batch most likely got
		case 1:
			p.exp = p64(-1)
		case 2:
			p.sess = p64(g.sessionId())
		case 3:
			p.idx = g.indexes()
		}
		w.puts = append(w.puts, p)
		guess++
	}
	if g.rng.Chance(60) {
		d := delOp{key: k}
		if g.rng.Chance(40) {
			d.exp = p64(guess - 1)
		}
		w.dels = append(w.dels, d)
		if g.rng.Chance(30) {
			w.dels = append(w.dels, delOp{key: k})
		}
	}
	if g.rng.Chance(30) {
		if r, ok := g.userRange(); ok {
			w.ranges = append(w.ranges, r)
		}
	}
}

// stressBatch: several puts of comparer-stressing keys, then operations that must see them through the indexed
// batch (delete-ranges around those keys, a sequence put, conditional put/delete), all in ONE request; the same
// shape split over two requests is the control.
func (g *gen) stressBatch() {
	rng := g.rng
	seg := hx.Pick(rng, stressSegs)
	first := &wreq{}
	pick := func() string {
		if rng.Chance(35) {
			return seg + "/" + hx.Pick(rng, []string{"x", "y", "x/y", "m", "~", "-", "."})
		}
		return hx.Pick(rng, stressKeys)
	}
	seen := map[string]bool{}
	for i, n := 0, 2+rng.Intn(4); i < n; i++ {
		k := pick()
		if seen[k] && rng.Chance(70) {
			continue
		}
		seen[k] = true
		p := putOp{key: k, value: []byte(hx.Pick(rng, values))}
		if rng.Chance(15) {
			p.idx = g.indexes()
		}
		if rng.Chance(10) {
			p.sess = p64(g.sessionId())
		}
		first.puts = append(first.puts, p)
	}
	if rng.Chance(25) {
		n := g.seqParts[seg+"/q"]
		if n == 0 {
			n = 1
			g.seqParts[seg+"/q"] = 1
		}
		ds := make([]uint64, n)
		for j := range ds {
			ds[j] = uint64(1 + rng.Intn(3))
		}
		first.puts = append(first.puts, putOp{key: seg + "/q", value: []byte("s"), part: pstr("pk"), deltas: ds})
	}
	second := first
	split := rng.Chance(35)
	if split {
		second = &wreq{}
	}
	guess := g.r.ref.lastVer + int64(len(first.puts))
	if rng.Chance(30) && len(first.puts) > 0 {
		k := first.puts[len(first.puts)-1].key
		second.dels = append(second.dels, delOp{key: k, exp: hx.Pick(rng, []*int64{nil, p64(guess), p64(-1)})})
	}
	for i, n := 0, 1+rng.Intn(2); i < n; i++ {
		var r rangeOp
		switch rng.Intn(6) {
		case 0:
			r = rangeOp{seg + "/", seg + "/~"}
		case 1:
			r = rangeOp{seg + "/", seg + "//"}
		case 2:
			r = rangeOp{seg + "/a", seg + "/y"}
		case 3:
			r = rangeOp{seg, seg + "0"}
		default:
			r = rangeOp{pick(), pick()}
		}
		if r.end == "" || sweepsInternal(r.start, r.end) {
			continue
		}
		second.ranges = append(second.ranges, r)
	}
	g.write(first)
	if split {
		if len(second.dels)+len(second.ranges) > 0 {
			g.write(second)
		}
		g.o.Count("request:stress-split-control")
	} else {
		g.o.Count("request:stress-one-batch")
	}
	if g.r.e.disk && rng.Chance(50) {
		g.r.do("R")
		g.r.do("H")
	}
	if rng.Chance(40) {
		g.r.do(fmt.Sprintf("L:%s:%s", hexs(seg), hexs(seg+"0")))
	}
}

func (g *gen) mixedRequest() *wreq {
	w := &wreq{}
	if g.rng.Chance(22) {
		g.sameKeyBatch(w)
		g.o.Count("request:same-key-batch")
		return w
	}
	for i, n := 0, g.rng.Intn(4); i < n; i++ {
		w.puts = append(w.puts, g.put())
	}
	for i, n := 0, g.rng.Intn(3); i < n; i++ {
		w.dels = append(w.dels, g.del())
	}
	if g.rng.Chance(25) {
		for i, n := 0, 1+g.rng.Intn(2); i < n; i++ {
			if r, ok := g.userRange(); ok {
				w.ranges = append(w.ranges, r)
			}
		}
	}
	if len(w.puts)+len(w.dels)+len(w.ranges) == 0 {
		w.puts = append(w.puts, g.put())
	}
	return w
}

// requests that fail after validation passed in the leader (design note O-10); kept rare in this stream
func (g *gen) failingRequest() *wreq {
	w := &wreq{puts: []putOp{g.put()}}
	bad := putOp{key: hx.Pick(g.rng, seqPrefixes), value: []byte("v"), part: pstr("pk"), deltas: []uint64{1}}
	if g.rng.Bool() {
		bad.part = nil
	} else {
		bad.deltas = []uint64{0, 1}
	}
	w.puts = append(w.puts, bad)
	g.o.Count("request:failing")
	return w
}

// sessionManager.createSession: a logged put of the session key, the id is the entry offset
func (g *gen) createSession() {
	md := &proto.SessionMetadata{TimeoutMs: uint32(5000 + g.rng.Intn(1000)), Identity: "client-" + fmt.Sprint(g.rng.Intn(3))}
	val, err := md.MarshalVT()
	hx.Must(err)
	id := g.off + 1
	g.write(&wreq{puts: []putOp{{key: server.SessionKey(server.SessionId(id)), value: val}}})
	g.sessions = append(g.sessions, id)
	g.o.Count("request:create-session")
}

// session.delete(): list the shadow keys, then one request deleting the records, the session key and the shadow range
func (g *gen) closeSession(id int64) {
	sk := server.SessionKey(server.SessionId(id))
	it, err := g.r.e.db.List(&proto.ListRequest{StartInclusive: sk + "/", EndExclusive: sk + "//"})
	hx.Must(err)
	w := &wreq{}
	for ; it.Valid(); it.Next() {
		if k, err := url.PathUnescape(it.Key()[len(sk)+1:]); err == nil && k != "" {
			w.dels = append(w.dels, delOp{key: k})
		}
	}
	it.Close()
	w.dels = append(w.dels, delOp{key: sk})
	w.ranges = append(w.ranges, rangeOp{sk + "/", sk + "//"})
	g.write(w)
	g.o.Count("request:close-session")
}

func (g *gen) readOps() {
	rng := g.rng
	rk := func() string {
		if rng.Chance(10) {
			return hx.Pick(rng, []string{"__oxia/", "__oxia/idx/", "__oxia/session/", "__oxia/commit-offset", "__oxia0"})
		}
		return g.someKey()
	}
	switch rng.Intn(10) {
	case 0, 1, 2:
		g.r.do(fmt.Sprintf("G:%d:%s:%d", rng.Intn(5), hexs(rk()), rng.Intn(2)))
		g.o.Count("read:get")
	case 3:
		a, b := rk(), rk()
		if rng.Chance(30) {
			a = ""
		}
		if rng.Chance(30) {
			b = ""
		}
		g.r.do(fmt.Sprintf("L:%s:%s", hexs(a), hexs(b)))
		g.o.Count("read:list")
	case 4:
		if r, ok := g.userRange(); ok {
			if rng.Chance(20) && !hasSlash(r.end) {
				r.start = ""
			}
			g.r.do(fmt.Sprintf("S:%s:%s", hexs(r.start), hexs(r.end)))
			g.o.Count("read:range-scan")
		}
	case 5:
		from := hx.Pick(rng, []int64{0, -1, g.r.lastOff, g.r.lastOff + 1, g.r.lastOff / 2, g.r.lastOff - 1})
		g.r.do(fmt.Sprintf("N:%d", from))
		g.o.Count("read:notifications")
	case 6:
		g.r.do("C")
	case 7:
		g.r.do(fmt.Sprintf("IG:%s:%d:%s:%d", hexs(hx.Pick(rng, idxNames)), rng.Intn(5), hexs(hx.Pick(rng, idxKeys)), rng.Intn(2)))
		g.o.Count("read:index-get")
	case 8:
		g.r.do(fmt.Sprintf("IL:%s:%s:%s", hexs(hx.Pick(rng, idxNames)), hexs(hx.Pick(rng, idxKeys)), hexs(hx.Pick(rng, idxKeys))))
		g.o.Count("read:index-list")
	case 9:
		g.r.do(fmt.Sprintf("IS:%s:%s:%s", hexs(hx.Pick(rng, idxNames)), hexs(hx.Pick(rng, idxKeys)), hexs(hx.Pick(rng, idxKeys))))
		g.o.Count("read:index-range-scan")
	}
}

// bulk: n keys under "r/", then range deletes below, at and above DeleteRangeThreshold matches
func (g *gen) bulk(n int) {
	for i := 0; i < n; {
		w := &wreq{}
		for j := 0; j < 50 && i < n; j, i = j+1, i+1 {
			p := putOp{key: fmt.Sprintf("r/%03d", i), value: []byte("v")}
			if g.rng.Chance(10) && len(g.sessions) > 0 {
				p.sess = p64(g.sessions[0])
			}
			if g.rng.Chance(10) {
				p.idx = [][2]string{{"a", fmt.Sprintf("k/%d", i%7)}}
			}
			w.puts = append(w.puts, p)
		}
		g.write(w)
	}
	w := &wreq{}
	if g.rng.Chance(40) {
		w.puts = append(w.puts, putOp{key: "r/zzz", value: []byte("late")}) // put first, then swept by the range
	}
	if g.rng.Chance(30) {
		w.dels = append(w.dels, delOp{key: "r/000"})
	}
	switch g.rng.Intn(3) {
	case 0:
		w.ranges = append(w.ranges, rangeOp{"r/", "r//"})
	case 1:
		w.ranges = append(w.ranges, rangeOp{"r/", fmt.Sprintf("r/%03d", n-1)}) // one short of everything
	default:
		w.ranges = append(w.ranges, rangeOp{"r/001", "r//"}, rangeOp{"r/", "r//"})
	}
	g.write(w)
	g.o.Count(fmt.Sprintf("request:bulk-range-%d", n))
}

func genValid(o *hx.Out, rng *hx.Rng, n int) {
	for c := 0; c < n; c++ {
		crng := rng.Fork()
		shard := int64(1 + crng.Intn(9))
		disk := crng.Chance(8)
		flavour := crng.Intn(10)
		tag := fmt.Sprintf("case#%d", c)
		runCase(o, "seq", shard, disk, tag, fmt.Sprintf("%d", crng.U64()), func(r *runner) {
			g := &gen{rng: crng, r: r, o: o, off: -1, ts: 1000 + uint64(crng.Intn(100000)), seqParts: map[string]int{}}
			if disk {
				o.Count("case:on-disk")
			}
			if crng.Chance(30) {
				r.do(fmt.Sprintf("B:%d", crng.U64()>>1))
				o.Count("case:busy-process")
			}
			if crng.Chance(30) {
				r.do(fmt.Sprintf("T:%d:%d", 1+crng.Intn(5), crng.Intn(2)))
			}
			if crng.Chance(8) {
				r.do("E:0")
			}
			nreq := 20 + crng.Intn(41)
			if flavour == 0 {
				nreq = 8 + crng.Intn(8)
			}
			for i := 0; i < nreq; i++ {
				switch x := crng.Intn(100); {
				case x < 8:
					g.createSession()
				case x < 12 && len(g.sessions) > 0:
					g.closeSession(hx.Pick(crng, g.sessions))
				case x < 14:
					g.write(g.failingRequest())
				case x < 16:
					r.do(fmt.Sprintf("E:%d", crng.Intn(2)))
				case x < 18 && disk:
					r.do("R")
					o.Count("reopen")
				case x < 30:
					g.stressBatch()
				default:
					g.write(g.mixedRequest())
				}
				if crng.Chance(45) {
					g.readOps()
				}
				if flavour == 0 && i == 3 {
					g.bulk(hx.Pick(crng, []int{99, 100, 101, 130}))
				}
			}
			r.do("D")
		})
	}
}

// ---------------------------------------------------------------- hostile stream (C13): class-only comparison

var hostileKeys = []string{
	"", "__oxia/", "__oxia", "__oxia/commit-offset", "__oxia/last-version-id", "__oxia/term", "__oxia/term-options",
	"__oxia/notifications/0000000000000000", "__oxia/notifications/0000000000000003", "__oxia/notifications/", "__oxia/notifications0",
	"__oxia/session/0000000000000001", "__oxia/session/0000000000000001/a", "__oxia/session/", "__oxia/session0",
	"__oxia/idx/a/k\x01a", "__oxia/idx/", "__oxia/idx/a/", "__oxia/idx0", "__oxia/x", "__oxia0", "a", "b", "a/b", "s", "s-x", "s--", "s-00000000000000000001x",
	"zz/", "\x00", "\xff\xff",
}

func genHostile(o *hx.Out, rng *hx.Rng, n int) {
	for c := 0; c < n; c++ {
		crng := rng.Fork()
		shard := int64(1 + crng.Intn(9))
		runCase(o, "hseq", shard, false, fmt.Sprintf("hcase#%d", c), fmt.Sprintf("%d", crng.U64()), func(r *runner) {
			off, ts := int64(-1), uint64(1000)
			hk := func() string {
				if crng.Chance(25) {
					return hx.Pick(crng, userKeys)
				}
				return hx.Pick(crng, hostileKeys)
			}
			for i, nreq := 0, 20+crng.Intn(30); i < nreq; i++ {
				w := &wreq{}
				for j, np := 0, crng.Intn(3); j < np; j++ {
					p := putOp{key: hk(), value: []byte(hx.Pick(crng, values))}
					if crng.Chance(30) {
						p.exp = p64(hx.Pick(crng, []int64{-1, 0, 1, 5, -2}))
					}
					if crng.Chance(20) {
						p.sess = p64(hx.Pick(crng, []int64{1, 3, 0, -1, 900}))
					}
					if crng.Chance(35) {
						p.key = hx.Pick(crng, []string{"s", "", "__oxia/s", "a", "s-x", "__oxia/commit"})
						for k, nd := 0, crng.Intn(4); k < nd; k++ {
							p.deltas = append(p.deltas, hx.Pick(crng, []uint64{0, 1, 2, math.MaxUint64, 1 << 63, 10000000000000000000}))
						}
						if crng.Chance(60) {
							p.part = pstr("pk")
						}
					}
					if crng.Chance(25) {
						p.idx = [][2]string{{hx.Pick(crng, []string{"a", "a/b", "", "n\x01"}), hx.Pick(crng, []string{"k", "k\x01x", "", "k/z", "\n"})}}
					}
					w.puts = append(w.puts, p)
				}
				for j, nd := 0, crng.Intn(3); j < nd; j++ {
					d := delOp{key: hk()}
					if crng.Chance(30) {
						d.exp = p64(hx.Pick(crng, []int64{-1, 0, 1}))
					}
					w.dels = append(w.dels, d)
				}
				if crng.Chance(40) {
					a, b := hk(), hk()
					if a == "" && b == "" { // nondeterministic in Pebble (pooled bounds buffer): never generated
						b = "a"
					}
					w.ranges = append(w.ranges, rangeOp{a, b})
				}
				off++
				ts += 5
				w.offset, w.ts = off, ts
				res := r.do(w.String())
				o.Count("hostile:" + strings.SplitN(res, ":", 2)[0])
			}
		})
	}
}

// ---------------------------------------------------------------- pure helper cases

func genPure(o *hx.Out, rng *hx.Rng, n int) {
	alphabet := []byte("aZ09-_.~$&+:=@/;,?% \x00\x01\x7f\x80\xff\n\t")
	rs := func(max int) string {
		b := make([]byte, rng.Intn(max+1))
		for i := range b {
			b[i] = alphabet[rng.Intn(len(alphabet))]
		}
		return string(b)
	}
	for _, k := range append(append([]string{}, userKeys...), hostileKeys...) {
		runPure(o, "esc", []string{hexs(k)})
	}
	for b := 0; b < 256; b++ {
		runPure(o, "esc", []string{hexs(string([]byte{byte(b)}))})
	}
	ints := []int64{0, 1, -1, 15, 16, 255, 4096, math.MaxInt64, math.MinInt64, math.MinInt64 + 1, -255, 1 << 40}
	for _, v := range ints {
		runPure(o, "hex16", []string{fmt.Sprint(v)})
		runPure(o, "dec", []string{fmt.Sprint(v)})
		runPure(o, "scanint", []string{hexs(fmt.Sprint(v))})
	}
	for _, v := range []uint64{0, 1, 9, 10, 99999, math.MaxUint64, 1 << 63, 10000000000000000000} {
		runPure(o, "pad20", []string{fmt.Sprint(v)})
		runPure(o, "scan20", []string{hexs(fmt.Sprintf("%020d", v))})
	}
	for _, s := range []string{"", " 12", "\t5", "\n5", "\r\n5", "\r5", "1_0", "_", "x", "12x", "00000000000000000001999", "99999999999999999999", "18446744073709551616",
		"18446744073709551615", "+5", "-5", " ", "0x10", "٣"} {
		runPure(o, "scan20", []string{hexs(s)})
		runPure(o, "scanint", []string{hexs(s)})
	}
	for _, s := range []string{"-9223372036854775808", "-9223372036854775809", "9223372036854775807", "9223372036854775808", "+7", "--1", "-", "+", "- 1"} {
		runPure(o, "scanint", []string{hexs(s)})
	}
	digits := []byte("0123456789 _x-")
	for i := 0; i < 4*n; i++ {
		runPure(o, "esc", []string{hexs(rs(8))})
		runPure(o, "unesc", []string{hexs(hx.Pick(rng, []string{rs(6), url.PathEscape(rs(6)), "%" + rs(3), "a%2", "%zz", "%2f%2F"}))})
		runPure(o, "hex16", []string{fmt.Sprint(int64(rng.U64()) >> uint(rng.Intn(64)))})
		runPure(o, "pad20", []string{fmt.Sprint(rng.U64() >> uint(rng.Intn(64)))})
		b := make([]byte, rng.Intn(24))
		for j := range b {
			b[j] = digits[rng.Intn(len(digits))]
			if rng.Chance(70) {
				b[j] = digits[rng.Intn(10)]
			}
		}
		runPure(o, "scan20", []string{hexs(string(b))})
		runPure(o, "scanint", []string{hexs(string(b))})
		ka, kb := hx.Pick(rng, userKeys), hx.Pick(rng, userKeys)
		if rng.Chance(30) {
			ka = hx.Pick(rng, hostileKeys)
		}
		runPure(o, "cmp", []string{hexs(ka), hexs(kb)})
	}
}
