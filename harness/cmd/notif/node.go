package main

// One real node: server.LeaderController on a real WAL (scratch directory) and a real in-memory Pebble
// store, replication factor 1 (or 2 with an in-process follower whose acknowledgements the harness holds).

import (
	"context"
	"errors"
	"fmt"
	"os"
	"path/filepath"
	"strings"
	"sync"
	"time"

	"google.golang.org/grpc/metadata"

	"github.com/oxia-db/oxia/common/concurrent"
	"github.com/oxia-db/oxia/proto"
	"github.com/oxia-db/oxia/server"
	"github.com/oxia-db/oxia/server/kv"
	"github.com/oxia-db/oxia/server/wal"

	"verif/harness/internal/hx"
	"verif/harness/internal/kvsafe"
)

const namespace = "default"
const opTimeout = 5 * time.Second

// recKV remembers the store the controller opened, so that the harness can read the stored batches and run
// trimming rounds on it (kv.VerifTrimNotifications) without going through the controller.
type recFactory struct {
	kv.Factory
	mu       sync.Mutex
	store    kv.KV  // the raw store
	scanHook func() // one-shot, run when the controller starts the NEXT range scan over the notification keys
}

func (f *recFactory) NewKV(ns string, shard int64) (kv.KV, error) {
	s, err := f.Factory.NewKV(ns, shard)
	if err != nil {
		return s, err
	}
	f.mu.Lock()
	f.store = s
	f.mu.Unlock()
	return &scanGateKV{KV: s, f: f}, nil
}

func (f *recFactory) armScan(h func()) {
	f.mu.Lock()
	f.scanHook = h
	f.mu.Unlock()
}

// scanGateKV is the store the controller works on: a pass-through, except that the harness can run something
// right before a RangeScan over "__oxia/notifications/" starts - the scan of notificationsTracker.
// ReadNextNotifications, i.e. the point after waitForNotifications has returned.
type scanGateKV struct {
	kv.KV
	f *recFactory
}

func (g *scanGateKV) RangeScan(lower, upper string) (kv.KeyValueIterator, error) {
	if strings.HasPrefix(lower, notifPrefix) {
		g.f.mu.Lock()
		h := g.f.scanHook
		g.f.scanHook = nil
		g.f.mu.Unlock()
		if h != nil {
			h()
		}
	}
	return g.KV.RangeScan(lower, upper)
}

// ---- in-process follower for the rf=2 scenario: appends are acknowledged only when the harness says so

type heldFollower struct {
	mu       sync.Mutex
	ctx      context.Context
	pending  []int64
	acks     chan *proto.Ack
	opened   chan struct{}
	openOnce sync.Once
}

func (f *heldFollower) Send(a *proto.Append) error {
	f.mu.Lock()
	f.pending = append(f.pending, a.Entry.Offset)
	f.mu.Unlock()
	return nil
}

// release acknowledges every append received so far.
func (f *heldFollower) release() {
	f.mu.Lock()
	p := f.pending
	f.pending = nil
	f.mu.Unlock()
	for _, off := range p {
		f.acks <- &proto.Ack{Offset: off}
	}
}
func (f *heldFollower) received() int {
	f.mu.Lock()
	defer f.mu.Unlock()
	return len(f.pending)
}
func (f *heldFollower) Recv() (*proto.Ack, error) {
	select {
	case a := <-f.acks:
		return a, nil
	case <-f.ctx.Done():
		return nil, f.ctx.Err()
	}
}
func (f *heldFollower) Header() (metadata.MD, error) { return nil, nil }
func (f *heldFollower) Trailer() metadata.MD         { return nil }
func (f *heldFollower) CloseSend() error             { return nil }
func (f *heldFollower) Context() context.Context     { return f.ctx }
func (f *heldFollower) SendMsg(any) error            { return nil }
func (f *heldFollower) RecvMsg(any) error            { return nil }

type replProvider struct {
	f    *heldFollower
	real *node // a real follower controller (replica.go)
}

func (p *replProvider) Close() error { return nil }
func (p *replProvider) GetReplicateStream(ctx context.Context, _ string, _ string, _ int64, _ int64) (proto.OxiaLogReplication_ReplicateClient, error) {
	if p.real != nil && p.real.fc != nil {
		return p.real.connect(ctx), nil
	}
	if p.f == nil {
		return nil, errors.New("no follower in this scenario")
	}
	p.f.ctx = ctx
	p.f.openOnce.Do(func() { close(p.f.opened) })
	return p.f, nil
}
func (p *replProvider) SendSnapshot(context.Context, string, string, int64, int64) (proto.OxiaLogReplication_SendSnapshotClient, error) {
	return nil, errors.New("snapshot not expected in this harness")
}
func (p *replProvider) Truncate(string, *proto.TruncateRequest) (*proto.TruncateResponse, error) {
	return nil, errors.New("truncate not expected in this harness")
}

// noCommit is the commit-offset provider of the WAL instances the harness itself opens (copying a log).
type noCommit struct{}

func (noCommit) CommitOffset() int64 { return wal.InvalidOffset }

// ---- the node

type node struct {
	name   string
	dir    string
	shard  int64
	kvf    *recFactory
	wf     wal.Factory
	prov   *replProvider
	lc     server.LeaderController
	term   int64
	fc     server.FollowerController // while the node is a follower (replica.go)
	bridge *bridge
}

var nodeCounter int

func tmpRoot() string {
	if d := os.Getenv("VERIF_TMP"); d != "" {
		return d
	}
	return "/var/tmp"
}

// newNode creates the directories and factories; the controller is created by start().
func newNode(shard int64) *node { return newNodeOn(shard, false) }

// newNodeOn: disk = the store is a Pebble directory that survives Close + re-open (a node whose controller is replaced:
// follower -> leader); otherwise an in-memory store, which starts empty whenever it is opened.
func newNodeOn(shard int64, disk bool) *node {
	nodeCounter++
	n := &node{name: fmt.Sprintf("n%d", nodeCounter), shard: shard, prov: &replProvider{}}
	var err error
	n.dir, err = os.MkdirTemp(tmpRoot(), "h_notif")
	hx.Must(err)
	f, err := kvsafe.New(&kv.FactoryOptions{InMemory: !disk, CacheSizeMB: 1, DataDir: filepath.Join(n.dir, "db")})
	hx.Must(err)
	n.kvf = &recFactory{Factory: f}
	n.wf = wal.NewWalFactory(&wal.FactoryOptions{BaseWalDir: filepath.Join(n.dir, "wal"), SegmentSize: 256 * 1024,
		Retention: time.Hour, SyncData: false})
	return n
}

// preload appends the given log entries to this node's (still closed) WAL: the node then holds the same log
// as the node they were read from, and replays it into its own store when it becomes leader.
func (n *node) preload(entries []*proto.LogEntry) {
	w, err := n.wf.NewWal(namespace, n.shard, noCommit{})
	hx.Must(err)
	for _, e := range entries {
		hx.Must(w.Append(e))
	}
	hx.Must(w.Close())
}

// start opens the controller; the background trimmer of its DB is kept idle by a retention of ten years
// (trimming rounds are run explicitly, with an injected clock).
func (n *node) start() {
	var err error
	n.lc, err = server.NewLeaderController(server.Config{NotificationsRetentionTime: 10 * 365 * 24 * time.Hour},
		namespace, n.shard, n.prov, n.wf, n.kvf)
	hx.Must(err)
}

func (n *node) becomeLeader(term int64, notificationsEnabled bool, withFollower bool) {
	_, err := n.lc.NewTerm(&proto.NewTermRequest{Shard: n.shard, Term: term, Options: &proto.NewTermOptions{EnableNotifications: notificationsEnabled}})
	hx.Must(err)
	n.term = term
	req := &proto.BecomeLeaderRequest{Shard: n.shard, Term: term, ReplicationFactor: 1, FollowerMaps: map[string]*proto.EntryId{}}
	if withFollower {
		n.prov.f = &heldFollower{acks: make(chan *proto.Ack, 1<<12), opened: make(chan struct{}), ctx: context.Background()}
		req.ReplicationFactor = 2
		req.FollowerMaps["f1"] = server.InvalidEntryId
	}
	_, err = n.lc.BecomeLeader(context.Background(), req)
	hx.Must(err)
	if withFollower {
		select {
		case <-n.prov.f.opened:
		case <-time.After(opTimeout):
			panic("follower stream never opened")
		}
	}
}

type writeOutcome struct {
	resp *proto.WriteResponse
	err  error
}

// writeAsync hands the request to the leader; the outcome arrives on the channel once the entry is
// committed and applied (or has failed).
func (n *node) writeAsync(req *proto.WriteRequest) chan writeOutcome {
	ch := make(chan writeOutcome, 1)
	req.Shard = &n.shard
	n.lc.Write(context.Background(), req, concurrent.NewOnce(
		func(r *proto.WriteResponse) { ch <- writeOutcome{resp: r} },
		func(err error) { ch <- writeOutcome{err: err} }))
	return ch
}

func (n *node) write(req *proto.WriteRequest) (*proto.WriteResponse, error) {
	select {
	case o := <-n.writeAsync(req):
		return o.resp, o.err
	case <-time.After(opTimeout):
		return nil, errors.New("write stuck")
	}
}

// walEntries reads the whole log of the node.
func (n *node) walEntries() []*proto.LogEntry {
	w, err := n.wf.NewWal(namespace, n.shard, noCommit{})
	hx.Must(err)
	defer w.Close()
	rd, err := w.NewReader(wal.InvalidOffset)
	hx.Must(err)
	defer rd.Close()
	var res []*proto.LogEntry
	for rd.HasNext() {
		e, err := rd.ReadNext()
		hx.Must(err)
		res = append(res, e)
	}
	return res
}

func (n *node) closeController() {
	if n.lc != nil {
		_ = n.lc.Close()
		n.lc = nil
	}
}

func (n *node) destroy() {
	n.closeController()
	n.closeFollower()
	_ = n.wf.Close()
	_ = n.kvf.Close()
	_ = os.RemoveAll(n.dir)
}

// ---- direct reads of the node's store (independent of the controller)

// storedBatches returns every notification batch of the store, in key order.
func (n *node) storedBatches() []*proto.NotificationBatch {
	n.kvf.mu.Lock()
	store := n.kvf.store
	n.kvf.mu.Unlock()
	it, err := store.RangeScan(notifPrefix, notifPrefix+"~")
	hx.Must(err)
	defer it.Close()
	var res []*proto.NotificationBatch
	for ; it.Valid(); it.Next() {
		v, err := it.Value()
		hx.Must(err)
		nb := &proto.NotificationBatch{}
		hx.Must(nb.UnmarshalVT(v))
		res = append(res, nb)
	}
	return res
}

// entryTimestamp reads the timestamp the leader stamped on the last applied entry: ProcessWrite rewrites
// __oxia/commit-offset with it on every request.
func (n *node) lastAppliedOffsetAndTs() (int64, uint64) {
	n.kvf.mu.Lock()
	store := n.kvf.store
	n.kvf.mu.Unlock()
	_, v, closer, err := store.Get("__oxia/commit-offset", kv.ComparisonEqual)
	if err != nil {
		return -1, 0
	}
	defer closer.Close()
	se := &proto.StorageEntry{}
	hx.Must(se.UnmarshalVT(v))
	var off int64
	_, err = fmt.Sscanf(string(se.Value), "%d", &off)
	hx.Must(err)
	return off, se.ModificationTimestamp
}
