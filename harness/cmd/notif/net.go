package main

// The "network" between the real client-side notification manager (oxia/notifications.go, driven through
// oxia.VerifShardNotifications) and the real LeaderController.GetNotifications: an in-process client pool
// whose streams are gated by the harness (how many batches the client may receive before the stream breaks).

import (
	"context"
	"errors"
	"io"
	"sync"
	"time"

	"google.golang.org/grpc"
	"google.golang.org/grpc/health/grpc_health_v1"
	"google.golang.org/grpc/metadata"

	"github.com/oxia-db/oxia/common/concurrent"
	"github.com/oxia-db/oxia/oxia"
	"github.com/oxia-db/oxia/proto"
)

var errStreamBroken = errors.New("verif: stream broken by the harness")

// gstream is one GetNotifications stream as the client sees it.
type gstream struct {
	mu       sync.Mutex
	cond     *sync.Cond
	ctx      context.Context
	cancel   context.CancelFunc
	start    *int64 // StartOffsetExclusive of the request
	queue    []*proto.NotificationBatch
	passed   []*proto.NotificationBatch // handed to the client, in order
	allowed  int                        // batches the client may still receive (-1 = no limit)
	broken   bool
	finished bool
	finErr   error
	idle     bool // the client sits in Recv and there is nothing it may receive
}

func newGStream(parent context.Context, start *int64) *gstream {
	s := &gstream{start: start}
	s.cond = sync.NewCond(&s.mu)
	s.ctx, s.cancel = context.WithCancel(parent)
	return s
}

func (s *gstream) push(b *proto.NotificationBatch) {
	s.mu.Lock()
	s.queue = append(s.queue, b)
	s.cond.Broadcast()
	s.mu.Unlock()
}

func (s *gstream) complete(err error) {
	s.mu.Lock()
	s.finished, s.finErr = true, err
	s.cond.Broadcast()
	s.mu.Unlock()
}

func (s *gstream) Recv() (*proto.NotificationBatch, error) {
	s.mu.Lock()
	defer s.mu.Unlock()
	for {
		if s.broken {
			return nil, errStreamBroken
		}
		if s.allowed != 0 && len(s.queue) > 0 {
			b := s.queue[0]
			s.queue = s.queue[1:]
			if s.allowed > 0 {
				s.allowed--
			}
			s.passed = append(s.passed, b)
			return b, nil
		}
		if s.finished && len(s.queue) == 0 {
			if s.finErr != nil {
				return nil, s.finErr
			}
			return nil, io.EOF
		}
		s.idle = true
		s.cond.Broadcast()
		s.cond.Wait()
		s.idle = false
	}
}

func (s *gstream) Header() (metadata.MD, error) { return nil, nil }
func (s *gstream) Trailer() metadata.MD         { return nil }
func (s *gstream) CloseSend() error             { return nil }
func (s *gstream) Context() context.Context     { return s.ctx }
func (s *gstream) SendMsg(any) error            { return nil }
func (s *gstream) RecvMsg(any) error            { return nil }

func (s *gstream) allow(k int) {
	s.mu.Lock()
	s.allowed = k
	s.cond.Broadcast()
	s.mu.Unlock()
}

// breakNow makes the client's pending/next Recv fail and stops the server-side dispatch goroutine.
func (s *gstream) breakNow() {
	s.mu.Lock()
	s.broken = true
	s.cond.Broadcast()
	s.mu.Unlock()
	s.cancel()
}

// lastSeen is the offset the stream is positioned at: the last batch handed over, else queued, else the start.
func (s *gstream) position(includeQueue bool) (int64, bool) {
	if includeQueue && len(s.queue) > 0 {
		return s.queue[len(s.queue)-1].Offset, true
	}
	if len(s.passed) > 0 {
		return s.passed[len(s.passed)-1].Offset, true
	}
	if s.start != nil {
		return *s.start, true
	}
	return 0, false
}

// settle waits until the server has sent everything up to [target] (the highest stored offset; -1 = none)
// and the client has consumed what it is allowed to. Returns false on timeout.
func (s *gstream) settle(target int64, timeout time.Duration) bool {
	deadline := time.Now().Add(timeout)
	for {
		s.mu.Lock()
		pos, known := s.position(true)
		sent := target < 0 || (known && pos >= target) || s.finished
		consumed := (s.idle && (len(s.queue) == 0 || s.allowed == 0)) || (s.finished && len(s.queue) == 0) || s.broken
		s.mu.Unlock()
		if sent && consumed {
			return true
		}
		if time.Now().After(deadline) {
			return false
		}
		time.Sleep(200 * time.Microsecond)
	}
}

// ---- client pool handing out such streams

type streamTarget interface {
	// current leader controller's GetNotifications
	getNotifications(ctx context.Context, req *proto.NotificationsRequest, cb concurrent.StreamCallback[*proto.NotificationBatch])
}

type fakePool struct {
	target         streamTarget
	mu             sync.Mutex
	streams        []*gstream
	newCh          chan *gstream
	defaultAllowed int // what a new stream lets through before the harness says otherwise
}

func newFakePool(t streamTarget) *fakePool {
	return &fakePool{target: t, newCh: make(chan *gstream, 16)}
}

func (p *fakePool) Close() error { return nil }
func (p *fakePool) GetClientRpc(string) (proto.OxiaClientClient, error) {
	return &fakeClient{p: p}, nil
}
func (p *fakePool) GetHealthRpc(string) (grpc_health_v1.HealthClient, io.Closer, error) {
	return nil, nil, errors.New("not available in the harness")
}
func (p *fakePool) GetCoordinationRpc(string) (proto.OxiaCoordinationClient, error) {
	return nil, errors.New("not available in the harness")
}
func (p *fakePool) GetReplicationRpc(string) (proto.OxiaLogReplicationClient, error) {
	return nil, errors.New("not available in the harness")
}
func (p *fakePool) Clear(string) {}

type fakeClient struct {
	proto.OxiaClientClient // every other method: nil pointer (never called by notifications.go)
	p                      *fakePool
}

func (c *fakeClient) GetNotifications(ctx context.Context, in *proto.NotificationsRequest, _ ...grpc.CallOption) (proto.OxiaClient_GetNotificationsClient, error) {
	var start *int64
	if in.StartOffsetExclusive != nil {
		v := *in.StartOffsetExclusive
		start = &v
	}
	s := newGStream(ctx, start)
	s.allowed = c.p.defaultAllowed
	c.p.mu.Lock()
	c.p.streams = append(c.p.streams, s)
	c.p.mu.Unlock()
	c.p.target.getNotifications(s.ctx, in, concurrent.NewStreamOnce(func(b *proto.NotificationBatch) error {
		s.push(b)
		return nil
	}, func(err error) { s.complete(err) }))
	c.p.newCh <- s
	return s, nil
}

// ---- one subscriber = the real per-shard manager of the client library

type subscriber struct {
	id     int
	v      *oxia.VerifShardNotifications
	pool   *fakePool
	cur    *gstream
	done   chan error
	events []*oxia.Notification
}

func newSubscriber(id int, shard int64, t streamTarget) *subscriber {
	s := &subscriber{id: id, pool: newFakePool(t)}
	s.v = oxia.NewVerifShardNotifications(context.Background(), shard, s.pool, func(int64) string { return "leader" }, 1<<16)
	return s
}

// connect starts one getNotifications attempt; returns the stream it opened (nil if the attempt failed first).
func (s *subscriber) connect(allowed int) (*gstream, error) {
	s.done = make(chan error, 1)
	go func() { s.done <- s.v.Attempt() }()
	select {
	case st := <-s.pool.newCh:
		st.allow(allowed)
		s.cur = st
		return st, nil
	case err := <-s.done:
		// the attempt is already over; if it got as far as opening a stream, the stream is what the step is about
		select {
		case st := <-s.pool.newCh:
			s.done <- err
			st.allow(allowed)
			s.cur = st
			return st, nil
		default:
		}
		s.done = nil
		return nil, err
	case <-time.After(opTimeout):
		panic("client never opened a stream")
	}
}

// disconnect breaks the current stream and waits for the attempt to return (what the retry loop sees).
func (s *subscriber) disconnect() error {
	if s.cur == nil {
		return nil
	}
	s.cur.breakNow()
	var err error
	select {
	case err = <-s.done:
	case <-time.After(opTimeout):
		panic("client attempt did not return after the stream broke")
	}
	s.cur, s.done = nil, nil
	return err
}

// drain collects what the manager has multiplexed to the user-facing channel so far.
func (s *subscriber) drain() []*oxia.Notification {
	var res []*oxia.Notification
	for {
		select {
		case n := <-s.v.Ch():
			res = append(res, n)
		default:
			s.events = append(s.events, res...)
			return res
		}
	}
}
