package main

// Gated dispatch loops (hook server.VerifWrapLeaderDB): the leader controller's DB is replaced by a pass-through
// whose ReadNextNotifications, for ONE stream chosen by the harness (marked in its context), stops at three points
//   pre   before the call is handed to the real DB (before the wait)
//   scan  after waitForNotifications returned, right before the range scan (scanGateKV, node.go)
//   post  after the real call returned (empty or not), before the dispatcher's next DB call
// At a point the dispatcher goroutine is parked while the scenario's main goroutine commits the planned number of
// requests through lc.Write; every other stream and every other DB call passes straight through.

import (
	"context"
	"fmt"
	"sync"
	"time"

	"github.com/oxia-db/oxia/common/concurrent"
	"github.com/oxia-db/oxia/proto"
	"github.com/oxia-db/oxia/server/kv"
)

type gateKey struct{}

type gatePoint struct {
	at   string // pre | scan | post
	read int    // 1 = the first ReadNextNotifications of the stream
}

type streamGate struct {
	mu    sync.Mutex
	plan  map[gatePoint]int // requests to commit at the point
	reads int
	req   chan int
	ack   chan struct{}
	kvf   *recFactory
}

func (g *streamGate) at(p gatePoint) {
	g.mu.Lock()
	n := g.plan[p]
	delete(g.plan, p)
	g.mu.Unlock()
	if n > 0 {
		g.req <- n
		<-g.ack
	}
}

func (g *streamGate) left() int {
	g.mu.Lock()
	defer g.mu.Unlock()
	return len(g.plan)
}

type gateDB struct {
	kv.DB
}

func (d *gateDB) ReadNextNotifications(ctx context.Context, startOffset int64) ([]*proto.NotificationBatch, error) {
	g, _ := ctx.Value(gateKey{}).(*streamGate)
	if g == nil {
		return d.DB.ReadNextNotifications(ctx, startOffset)
	}
	g.mu.Lock()
	g.reads++
	idx := g.reads
	g.mu.Unlock()
	g.at(gatePoint{"pre", idx})
	g.kvf.armScan(func() { g.at(gatePoint{"scan", idx}) })
	res, err := d.DB.ReadNextNotifications(ctx, startOffset)
	g.kvf.armScan(nil)
	g.at(gatePoint{"post", idx})
	return res, err
}

func planS(plan map[gatePoint]int) string {
	s := ""
	for _, at := range []string{"pre", "scan", "post"} {
		for r := 1; r <= 3; r++ {
			if n := plan[gatePoint{at, r}]; n > 0 {
				s += fmt.Sprintf(" %s#%d:%d", at, r, n)
			}
		}
	}
	return s
}

// gatedStream: one raw GetNotifications call whose dispatch loop is parked at the planned points while requests
// commit. Recorded for the model as the committed W ops followed by GN:<start>:<qc> (qc = the commit offset when the
// stream was opened), whose result is everything the stream carried: by c17_resume that must be what a stream
// opened at the END with the same start would carry.
func (w *world) gatedStream(start *int64, plan map[gatePoint]int, what string) {
	w.closeOpenStreams()
	qc := w.commit()
	desc := fmt.Sprintf("gated stream (%s) start=%s, commits at%s", what, optI(start), planS(plan))
	g := &streamGate{plan: plan, req: make(chan int), ack: make(chan struct{}), kvf: w.leader.kvf}
	var mu sync.Mutex
	var got []*proto.NotificationBatch
	var fin error
	done := false
	ctx, cancel := context.WithCancel(context.WithValue(context.Background(), gateKey{}, g))
	w.leader.lc.GetNotifications(ctx, &proto.NotificationsRequest{Shard: w.shard, StartOffsetExclusive: start},
		concurrent.NewStreamOnce(func(b *proto.NotificationBatch) error {
			mu.Lock()
			got = append(got, b)
			mu.Unlock()
			return nil
		}, func(err error) {
			mu.Lock()
			fin, done = err, true
			mu.Unlock()
		}))
	deadline := time.Now().Add(300 * time.Millisecond)
	quietSince := time.Now()
	for {
		select {
		case n := <-g.req:
			for i := 0; i < n; i++ {
				w.write(w.genRequest())
			}
			w.o.Count("gated:commits-inside-dispatch")
			g.ack <- struct{}{}
			deadline = time.Now().Add(300 * time.Millisecond)
			quietSince = time.Now()
			continue
		case <-time.After(100 * time.Microsecond):
		}
		want, dummy := w.expectedStream(start, qc)
		target := len(want)
		if dummy {
			target++
		}
		mu.Lock()
		n, d := len(got), done
		mu.Unlock()
		if n < target {
			quietSince = time.Now()
		}
		// everything expected is there and no gate has asked for anything for a while (a dispatcher that is
		// not blocked reaches its next gate within microseconds)
		if d || time.Now().After(deadline) || (n >= target && time.Since(quietSince) > 3*time.Millisecond) {
			break
		}
	}
	time.Sleep(time.Millisecond)
	mu.Lock()
	snap := append([]*proto.NotificationBatch(nil), got...)
	sdone, sfin := done, fin
	mu.Unlock()
	// release a dispatcher that is parked at a gate, then hang up
	cancel()
	go func() {
		for {
			select {
			case <-g.req:
				g.ack <- struct{}{}
			case <-time.After(50 * time.Millisecond):
				return
			}
		}
	}()
	if k := g.left(); k > 0 {
		w.o.CountN("gated:point-not-reached", k)
	}
	w.o.Count("gated:stream:" + what)
	op := fmt.Sprintf("GN:%s:%d", optI(start), qc)
	if sdone && sfin != nil && len(snap) == 0 {
		w.record(op, "err:"+errKind(sfin))
		return
	}
	var xs []string
	for _, b := range snap {
		xs = append(xs, batchS(b))
	}
	w.record(op, join(xs, ","))
	want, dummy := w.expectedStream(start, qc)
	// a stream that carried a proper prefix of what it owes and then fell silent: committed batches not delivered
	i := 0
	if dummy && len(snap) > 0 {
		i = 1
	}
	prefix := len(snap)-i < len(want)
	for j, b := range snap[i:] {
		if j >= len(want) || b.Offset != want[j] {
			prefix = false
		}
	}
	if prefix && (!dummy || len(snap) > 0) {
		g.mu.Lock()
		reads := g.reads
		g.mu.Unlock()
		wv := fmt.Sprint(want)
		if len(wv) > 200 {
			wv = wv[:200] + "..."
		}
		w.viol("notif:committed-batch-not-delivered", "%s: the stream carried %d of the %d retained batches above its position (%s) and then nothing for 300 ms "+
			"while its dispatcher issued %d ReadNextNotifications calls; missing from offset %d", desc, len(snap)-i, len(want), wv, reads, want[len(snap)-i])
		return
	}
	w.judgeStream(desc+" "+op, snap, want, dummy, qc)
}
