package main

// Replicated scenarios: the leader (rf = 2) replicates to a REAL server.FollowerController that was created on an
// EMPTY directory (no term yet) and then told NewTerm(term, options) - the way every initial follower of a new shard and
// every node added to an ensemble comes into being. The two controllers are connected by an in-process bridge that
// carries the leader's Append messages (with its commit offsets) to FollowerController.Replicate and the acks back.
// Later the follower is promoted: NewTerm on it, Close, NewLeaderController on the same WAL / store, BecomeLeader;
// subscribers of the old leader resume on it from every possible offset.
//
// Verdicts
//	notif:replica-batch-missing   an entry the follower has applied has no batch in the follower's store although the
//	                              term options enable notifications (or its batch differs from the reference / a batch
//	                              is there although the options disable them)
//	notif:gap-or-duplicate-on-resume   after the promotion a stream resuming at s does not carry s+1 .. commit offset

import (
	"context"
	"errors"
	"fmt"
	"io"
	"strings"
	"time"

	"google.golang.org/grpc/metadata"

	"github.com/oxia-db/oxia/proto"
	"github.com/oxia-db/oxia/server"
	"github.com/oxia-db/oxia/server/kv"

	"verif/harness/internal/hx"
)

type bridge struct {
	ctx     context.Context
	cancel  context.CancelFunc
	appends chan *proto.Append
	acks    chan *proto.Ack
	done    chan struct{} // FollowerController.Replicate has returned
}

func newBridge(parent context.Context) *bridge {
	b := &bridge{appends: make(chan *proto.Append, 1<<12), acks: make(chan *proto.Ack, 1<<12), done: make(chan struct{})}
	b.ctx, b.cancel = context.WithCancel(parent)
	return b
}

// the leader's end
type bridgeClient struct{ *bridge }

func (b bridgeClient) Send(a *proto.Append) error {
	select {
	case b.appends <- a:
		return nil
	case <-b.ctx.Done():
		return b.ctx.Err()
	case <-b.done:
		return errors.New("verif: follower closed the stream")
	}
}
func (b bridgeClient) Recv() (*proto.Ack, error) {
	select {
	case a := <-b.acks:
		return a, nil
	case <-b.ctx.Done():
		return nil, b.ctx.Err()
	case <-b.done:
		return nil, io.EOF
	}
}
func (b bridgeClient) Header() (metadata.MD, error) { return nil, nil }
func (b bridgeClient) Trailer() metadata.MD         { return nil }
func (b bridgeClient) CloseSend() error             { return nil }
func (b bridgeClient) Context() context.Context     { return b.ctx }
func (b bridgeClient) SendMsg(any) error            { return nil }
func (b bridgeClient) RecvMsg(any) error            { return nil }

// the follower's end
type bridgeServer struct{ *bridge }

func (b bridgeServer) Recv() (*proto.Append, error) {
	select {
	case a := <-b.appends:
		return a, nil
	case <-b.ctx.Done():
		return nil, io.EOF
	}
}
func (b bridgeServer) Send(a *proto.Ack) error {
	select {
	case b.acks <- a:
		return nil
	case <-b.ctx.Done():
		return b.ctx.Err()
	}
}
func (b bridgeServer) SetHeader(metadata.MD) error  { return nil }
func (b bridgeServer) SendHeader(metadata.MD) error { return nil }
func (b bridgeServer) SetTrailer(metadata.MD)       {}
func (b bridgeServer) Context() context.Context     { return b.ctx }
func (b bridgeServer) SendMsg(any) error            { return nil }
func (b bridgeServer) RecvMsg(any) error            { return nil }

// connect is what replProvider.GetReplicateStream does when the follower is a real controller.
func (n *node) connect(ctx context.Context) proto.OxiaLogReplication_ReplicateClient {
	b := newBridge(ctx)
	n.bridge = b
	fc := n.fc
	go func() {
		_ = fc.Replicate(bridgeServer{b})
		close(b.done)
	}()
	return bridgeClient{b}
}

// startFollower: a follower controller on this node's (empty) directories, then NewTerm with the term's options.
func (n *node) startFollower(term int64, notificationsEnabled bool) {
	var err error
	n.fc, err = server.NewFollowerController(server.Config{NotificationsRetentionTime: 10 * 365 * 24 * time.Hour}, namespace, n.shard, n.wf, n.kvf)
	hx.Must(err)
	_, err = n.fc.NewTerm(&proto.NewTermRequest{Shard: n.shard, Term: term, Options: &proto.NewTermOptions{EnableNotifications: notificationsEnabled}})
	hx.Must(err)
	n.term = term
}

func (n *node) closeFollower() {
	if n.fc == nil {
		return
	}
	if n.bridge != nil {
		n.bridge.cancel()
		select {
		case <-n.bridge.done:
		case <-time.After(opTimeout):
		}
		time.Sleep(time.Millisecond) // the stream's sync goroutine ends with the stream
		n.bridge = nil
	}
	_ = n.fc.Close()
	n.fc = nil
}

// followerApplied: the follower's DB commit offset (what it has applied so far).
func (n *node) followerApplied() int64 {
	off, _ := n.lastAppliedOffsetAndTs()
	return off
}

// setupReplicated: leader w.leader (fresh, not yet leading) + fresh follower, term 1.
func (w *world) setupReplicated(enabled bool) {
	w.enabled = enabled
	w.follower = newNodeOn(w.shard, true)
	w.follower.startFollower(1, enabled)
	w.leader.prov.real = w.follower
	_, err := w.leader.lc.NewTerm(&proto.NewTermRequest{Shard: w.shard, Term: 1, Options: &proto.NewTermOptions{EnableNotifications: enabled}})
	hx.Must(err)
	w.leader.term = 1
	_, err = w.leader.lc.BecomeLeader(context.Background(), &proto.BecomeLeaderRequest{Shard: w.shard, Term: 1, ReplicationFactor: 2,
		FollowerMaps: map[string]*proto.EntryId{"f": server.InvalidEntryId}})
	hx.Must(err)
	server.VerifWrapLeaderDB(w.leader.lc, func(d kv.DB) kv.DB { return &gateDB{DB: d} })
	if !enabled {
		w.record("E:0", "ok") // for the model: the term options switch notifications off (NewTerm -> EnableNotifications)
	}
}

// checkReplica: every entry the follower has applied has, in the follower's store, the batch the reference expects.
func (w *world) checkReplica(when string) {
	f := w.follower
	if f == nil {
		return
	}
	// the follower learns the commit offset of an entry with the next append: wait until it has applied all but the last
	deadline := time.Now().Add(opTimeout)
	for f.followerApplied() < w.nextOff-2 && time.Now().Before(deadline) {
		time.Sleep(200 * time.Microsecond)
	}
	applied := f.followerApplied()
	byOff := map[int64]*proto.NotificationBatch{}
	for _, b := range f.storedBatches() {
		byOff[b.Offset] = b
	}
	w.o.Count("replica:checked")
	for off := int64(0); off <= applied; off++ {
		b, ok := byOff[off]
		switch {
		case w.enabled && !ok:
			w.viol("notif:replica-batch-missing", "%s: the follower (created on an empty directory, NewTerm with notifications enabled) has applied offsets 0..%d "+
				"but its store holds no batch for offset %d (the leader's batch: %s); follower batches: %d", when, applied, off, w.want[off], len(byOff))
			return
		case !w.enabled && ok:
			w.viol("notif:replica-batch-missing", "%s: the term options disable notifications but the follower stores a batch for offset %d", when, off)
			return
		case ok && (notifsS(b.Notifications) != w.want[off] || b.Timestamp != w.tsOf[off] || b.Shard != w.shard):
			w.viol("notif:replica-batch-missing", "%s: the follower's batch for offset %d is %s, the reference says %d/%d/%d/%s", when, off, batchS(b), w.shard, off, w.tsOf[off], w.want[off])
			return
		}
	}
}

// promote: the follower becomes the leader of the next term; the old leader goes away.
func (w *world) promote() {
	w.closeOpenStreams()
	w.checkReplica("before the promotion")
	old, f := w.leader, w.follower
	old.closeController()
	w.term++
	_, err := f.fc.NewTerm(&proto.NewTermRequest{Shard: w.shard, Term: w.term, Options: &proto.NewTermOptions{EnableNotifications: w.enabled}})
	hx.Must(err)
	f.closeFollower()
	f.start()
	f.becomeLeader(w.term, w.enabled, false)
	server.VerifWrapLeaderDB(f.lc, func(d kv.DB) kv.DB { return &gateDB{DB: d} })
	w.leader, w.follower = f, nil
	old.destroy()
	w.record(fmt.Sprintf("L:%d", b2i(w.enabled)), "ok")
	w.o.Count("promotion-of-a-real-follower")
	for off := int64(0); off < w.nextOff; off++ {
		w.checkStoredSig(off, fmt.Sprintf("after the promotion of the follower (term %d)", w.term), "notif:replica-batch-missing")
	}
	if !w.enabled {
		w.rawStream(nil)
		return
	}
	// resume from every possible offset: the new leader has never trimmed anything, so s+1 .. commit must arrive
	c := w.nextOff - 1
	for s := int64(-1); s <= c; s++ {
		w.rawStream(p64(s))
		got := w.res[len(w.res)-1]
		n := 0
		if got != "-" {
			n = len(strings.Split(got, ","))
		}
		if int64(n) != c-s || (n > 0 && !strings.HasPrefix(got, fmt.Sprintf("%d/%d/", w.shard, s+1))) {
			w.viol("notif:gap-or-duplicate-on-resume", "a subscriber resuming at offset %d on the promoted follower (commit offset %d) received %d batches (%.200s), expected %d..%d",
				s, c, n, got, s+1, c)
			return
		}
	}
}

func scriptReplicated(w *world) {
	rng := w.rng
	steps := 6 + rng.Intn(10)
	promoted := false
	for i := 0; i < steps; i++ {
		switch x := rng.Intn(100); {
		case x < 50:
			for j, n := 0, 1+rng.Intn(3); j < n; j++ {
				w.write(w.genRequest())
			}
			if rng.Chance(40) {
				w.checkReplica("while following")
			}
		case x < 70:
			k := hx.Pick(rng, []int{1, 2, 3, allBatches})
			w.clientConnect(rng.Intn(2), k, false)
		case x < 80:
			c := w.nextOff - 1
			w.rawStream(hx.Pick(rng, []*int64{nil, p64(-1), p64(c), p64(c / 2)}))
		case x < 95 && !promoted && i >= 2:
			w.promote()
			promoted = true
		}
	}
	if !promoted {
		w.write(w.genRequest())
		w.promote()
	}
	for i := range w.subs {
		w.clientConnect(i, allBatches, false)
	}
	w.o.Count("scenario:replicated")
}
