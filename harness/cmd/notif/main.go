package main

import (
	"context"
	"fmt"
	"time"

	"github.com/oxia-db/oxia/common/concurrent"
	"github.com/oxia-db/oxia/proto"
)

const notifPrefix = "__oxia/notifications/"

type cluster struct{ leader *node }

func (c *cluster) getNotifications(ctx context.Context, req *proto.NotificationsRequest, cb concurrent.StreamCallback[*proto.NotificationBatch]) {
	c.leader.lc.GetNotifications(ctx, req, cb)
}

func main() {
	a := newNode(1)
	a.start()
	a.becomeLeader(1, true, false)
	c := &cluster{leader: a}
	s := newSubscriber(0, 1, c)
	st, err := s.connect(-1)
	fmt.Println("connect1", st.start, err)
	fmt.Println("settled", st.settle(-1, time.Second), "passed", len(st.passed), "last", s.v.LastOffsetReceived(), "init", s.v.Initialized())
	fmt.Println("disconnect", s.disconnect())
	for i := 0; i < 3; i++ {
		r, err := a.write(&proto.WriteRequest{Puts: []*proto.PutRequest{{Key: fmt.Sprintf("k%d", i), Value: []byte("v")}}})
		fmt.Println("write", r.GetPuts()[0].GetStatus(), err)
	}
	st, err = s.connect(-1)
	fmt.Println("connect2 start=", st.start, err)
	fmt.Println("settled", st.settle(2, time.Second))
	for _, b := range st.passed {
		fmt.Println("  batch", b.Offset, len(b.Notifications))
	}
	fmt.Println("events", len(s.drain()), "last", s.v.LastOffsetReceived())
	s.disconnect()
	a.destroy()
}
