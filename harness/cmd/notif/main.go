// harness notif: the notification stream end to end on REAL controllers (property C17, leader leg).
//
// A real server.LeaderController (real WAL on a scratch directory, real in-memory Pebble store, rf = 1) is written to
// through lc.Write; subscribers are (a) raw LeaderController.GetNotifications calls with every kind of start offset and
// (b) the REAL client-side manager of oxia/notifications.go (shardNotificationsManager, driven one connection attempt at
// a time through oxia.VerifShardNotifications) over an in-process client pool whose streams the harness breaks after a
// chosen number of batches; leader changes replace the leader by a second real node that holds a copy of the log and
// replays it (NewTerm + BecomeLeader); trimming rounds run the real notificationsTrimmer.trimNotifications with an
// injected clock on the leader's store.
//
// CASE LINES: kind "nseq" (grammar in ocaml/db_main.ml, block C17; interpreted with Db/NotifStream.v):
//
//	W:<offset>:<ts>:<puts>:<dels>:<ranges>   as in harness/cmd/db; offset and timestamp are the ones the leader assigned
//	GN:<start|n>:<qc>      one raw GetNotifications call, read until the stream is quiet   -> <batch>,... | err:<kind>
//	CC<i>:<k>:<qc>         client i (re)connects, receives at most k batches, the stream breaks
//	                       -> req=<n|offset>|ev=<sorted notifications>|last=<lastOffsetReceived>
//	CL<i>:<qc>             client i, still connected since its last CC, after further writes -> ev=...|last=...
//	L:<0|1>                leader change to a fresh node replaying the log, notifications enabled or not in the new term
//	X:<now>:<retention>    one trimming round on the current leader's store -> trimmed | nothing | err
//	XW:<now>:<retention>:<offset>:<ts>:<puts>:<dels>:<ranges>
//	                       the same round while the shard has been idle for longer than the retention (everything stored has
//	                       expired), and the request commits through lc.Write WHILE the round runs: exactly when the trimmer,
//	                       having taken first/last and read its timestamps, creates its write batch (kv.KV wrapper firing on
//	                       NewWriteBatch)   -> <trimmed|nothing|err>|<W result>;  then GN:<offset-1>: a subscriber that saw
//	                       everything below the request must receive its batch
//
// SPEC VERDICTS (independent of the model: the reference of req.go and direct reads of the store)
//
//	notif:batch-missing / notif:batch-content-differs / notif:internal-key-exposed   (stored batch of every applied request,
//	                                  also on the new leader after a change)
//	notif:gap-or-duplicate-on-resume  a subscriber (raw or client) did not get exactly the retained batches above its
//	                                  position, in order, each once; for clients: the notifications handed to the
//	                                  application are not those of exactly these batches
//	notif:delivered-above-commit      a batch above the leader's commit offset went down a stream
//	notif:trimmed-within-retention    a round removed a batch younger than now-retention, or not a prefix
//	notif:replica-batch-missing       replicated scenarios (replica.go): a real follower created on an empty directory lacks
//	                                  the batch of an entry it has applied
//	notif:unexpired-batch-trimmed     the batch of a request committed while a trimming round was running (timestamp >= the
//	                                  round's clock reading) is gone after the round / not delivered to a resuming subscriber
//
// -mode uncommitted: rf = 2 with an in-process follower whose acknowledgements the harness holds back: nothing may be
// stored or delivered for an entry that is appended but not committed (verdict notif:delivered-above-commit); then the
// wake-up scenario: one waiting subscriber, 30000 single writes, each batch must arrive before the next write
// (verdict notif:committed-batch-not-delivered: lost wake-up in notificationsTracker, O-17d).
// -mode real-client: ONE scenario through oxia.VerifNewNotifications = newNotifications with its goroutines and its
// retry loop (about 1.5 s of back-off): the O-17 scenario (initialised on an empty shard, reconnect before the first batch).
package main

import (
	"context"
	"flag"
	"fmt"
	"sort"
	"strconv"
	"strings"
	"sync"
	"time"

	"github.com/oxia-db/oxia/common/concurrent"
	oxtime "github.com/oxia-db/oxia/common/time"
	"github.com/oxia-db/oxia/oxia"
	"github.com/oxia-db/oxia/proto"
	"github.com/oxia-db/oxia/server"
	"github.com/oxia-db/oxia/server/kv"

	"verif/harness/internal/hx"
)

const notifPrefix = "__oxia/notifications/"
const allBatches = 100000

var keys = []string{"a", "b", "c", "a/b", "a/c", "a/b/c", "a-", "a0", "\xffz", "k\x01x", "x?y", "zz", "zz/y", "/", "__oxib/x", "m/n", "0", "%"}
var seqPrefixes = []string{"s", "q/x"}

type world struct {
	o        *hx.Out
	rng      *hx.Rng
	tag      string
	shard    int64
	leader   *node
	term     int64
	enabled  bool
	ref      *refState
	want     map[int64]string // reference notifications per applied offset
	tsOf     map[int64]uint64
	nextOff  int64
	follower *node // replicated scenarios: the real follower of the leader
	subs     map[int]*subscriber
	open     map[int]bool  // client i has an open stream (between CC with k=all and CL)
	openPos  map[int]int64 // its position when the CC step ended
	ops      []string
	res      []string
	vers     map[string]int64
}

func (w *world) getNotifications(ctx context.Context, req *proto.NotificationsRequest, cb concurrent.StreamCallback[*proto.NotificationBatch]) {
	w.leader.lc.GetNotifications(ctx, req, cb)
}

func (w *world) viol(sig, format string, a ...any) {
	w.o.Violation(sig, fmt.Sprintf("%s after [%s]: ", w.tag, abbrevOps(w.ops))+fmt.Sprintf(format, a...))
}

// abbrevOps keeps a long schedule printable: runs of writes are summarised, long stream results are not part of it anyway.
func abbrevOps(ops []string) string {
	if len(ops) < 80 {
		return strings.Join(ops, ";")
	}
	var out []string
	run := 0
	flush := func() {
		if run > 0 {
			out = append(out, fmt.Sprintf("<%d writes>", run))
			run = 0
		}
	}
	for _, op := range ops {
		if strings.HasPrefix(op, "W:") {
			run++
			continue
		}
		flush()
		out = append(out, op)
	}
	flush()
	return strings.Join(out, ";")
}

func (w *world) record(op, res string) {
	w.ops = append(w.ops, op)
	w.res = append(w.res, res)
}

// commit: the quorum tracker's commit offset (what GetNotifications puts into the dummy batch)
func (w *world) commit() int64 { return server.VerifClusterLeaderCommitOffset(w.leader.lc) }

// applied: the DB's commit offset = the last entry applied (entries are applied only once committed)
func (w *world) applied() int64 {
	off, _ := w.leader.lastAppliedOffsetAndTs()
	return off
}

func (w *world) storedOffsets() (offs []int64, byOff map[int64]*proto.NotificationBatch) {
	byOff = map[int64]*proto.NotificationBatch{}
	for _, b := range w.leader.storedBatches() {
		offs = append(offs, b.Offset)
		byOff[b.Offset] = b
	}
	return
}

// checkStored compares the stored batch of one offset with the reference.
func (w *world) checkStored(off int64, ctx string) { w.checkStoredSig(off, ctx, "notif:batch-missing") }

func (w *world) checkStoredSig(off int64, ctx string, missingSig string) {
	_, byOff := w.storedOffsets()
	b, ok := byOff[off]
	if !w.enabled {
		if ok {
			w.viol("notif:batch-content-differs", "%s: notifications are disabled in this term but a batch is stored under %d", ctx, off)
		}
		return
	}
	if !ok {
		w.viol(missingSig, "%s: no batch stored under offset %d", ctx, off)
		return
	}
	got := notifsS(b.Notifications)
	if b.Shard != w.shard || b.Offset != off || b.Timestamp != w.tsOf[off] || got != w.want[off] {
		w.viol("notif:batch-content-differs", "%s: stored %s, expected %d/%d/%d/%s", ctx, batchS(b), w.shard, off, w.tsOf[off], w.want[off])
	}
	for k := range b.Notifications {
		if strings.HasPrefix(k, internalPrefix) {
			w.viol("notif:internal-key-exposed", "%s: batch %d names %s", ctx, off, hexs(k))
		}
	}
}

// ---------------------------------------------------------------- steps

// applyWrite hands the request to the leader, waits until it is applied and brings the reference up to date.
func (w *world) applyWrite(req *wreq) string {
	resp, err := w.leader.write(req.toProto())
	if err != nil {
		panic(fmt.Sprintf("leader write failed: %v (%s)", err, req.String()))
	}
	off, ts := w.leader.lastAppliedOffsetAndTs()
	if off != w.nextOff {
		panic(fmt.Sprintf("leader applied offset %d, expected %d", off, w.nextOff))
	}
	req.offset, req.ts = off, ts
	w.nextOff++
	w.tsOf[off] = ts
	w.want[off] = w.ref.changes(req, resp)
	for i, p := range resp.Puts {
		if p.Status == proto.Status_OK && p.Version != nil && len(req.puts[i].deltas) == 0 {
			w.vers[req.puts[i].key] = p.Version.VersionId
		}
	}
	w.o.Count("write")
	return respS(resp)
}

func (w *world) write(req *wreq) {
	res := w.applyWrite(req)
	w.record(req.String(), res)
	w.checkStored(req.offset, "request "+req.String())
}

func p64(v int64) *int64 { return &v }

func (w *world) genRequest() *wreq {
	r := &wreq{}
	rng := w.rng
	key := func() string { return hx.Pick(rng, keys) }
	switch rng.Intn(10) {
	case 0: // several operations on one key
		k := key()
		r.puts = append(r.puts, putOp{key: k, value: []byte("1")}, putOp{key: k, value: []byte("2")})
		if rng.Bool() {
			r.dels = append(r.dels, delOp{key: k})
		}
	case 1: // range delete, sometimes with a put swept by it
		a, b := key(), key()
		if a == "" && b == "" {
			b = "a"
		}
		if rng.Chance(40) {
			r.puts = append(r.puts, putOp{key: key(), value: []byte("r")})
		}
		if !sweepsInternal(a, b) {
			r.ranges = append(r.ranges, rangeOp{a, b})
		} else {
			r.dels = append(r.dels, delOp{key: a})
		}
	case 2: // sequence put
		r.puts = append(r.puts, putOp{key: hx.Pick(rng, seqPrefixes), value: []byte("s"), part: func() *string { s := "pk"; return &s }(),
			deltas: []uint64{uint64(1 + rng.Intn(3))}})
	case 3: // conditional put / delete
		k := key()
		exp := p64(-1)
		if v, ok := w.vers[k]; ok && rng.Chance(60) {
			exp = p64(v)
		}
		if rng.Bool() {
			r.puts = append(r.puts, putOp{key: k, value: []byte("c"), exp: exp})
		} else {
			r.dels = append(r.dels, delOp{key: k, exp: exp})
		}
	case 4: // delete (often of a missing key: an empty batch)
		r.dels = append(r.dels, delOp{key: key()})
	default:
		for i, n := 0, 1+rng.Intn(3); i < n; i++ {
			r.puts = append(r.puts, putOp{key: key(), value: []byte(fmt.Sprintf("v%d", rng.Intn(100)))})
		}
		if rng.Chance(30) {
			r.dels = append(r.dels, delOp{key: key()})
		}
	}
	return r
}

func hasSlash(s string) bool { return strings.IndexByte(s, '/') >= 0 }
func seg1(s string) string   { return s[:strings.IndexByte(s, '/')] }

// sweepsInternal: could [start, end) contain a key with prefix "__oxia/"? (the test of harness/cmd/db/gen.go)
func sweepsInternal(start, end string) bool {
	if strings.HasPrefix(start, internalPrefix) || strings.HasPrefix(end, internalPrefix) {
		return true
	}
	if !hasSlash(end) || seg1(end) < "__oxia" {
		return false
	}
	if hasSlash(start) && seg1(start) > "__oxia" {
		return false
	}
	return true
}

// expectedStream: what a stream positioned at [pos] (nil: a new subscriber, dummy batch first at qc) must carry,
// given what is stored right now.
func (w *world) expectedStream(pos *int64, qc int64) (offsets []int64, dummy bool) {
	from := qc
	if pos != nil {
		from = *pos
	} else {
		dummy = true
	}
	offs, _ := w.storedOffsets()
	for _, o := range offs {
		if o > from {
			offsets = append(offsets, o)
		}
	}
	return
}

func maxOf(offs []int64) int64 {
	m := int64(-1)
	for _, o := range offs {
		if o > m {
			m = o
		}
	}
	return m
}

// rawStream: one LeaderController.GetNotifications call, read until quiet.
func (w *world) rawStream(start *int64) {
	qc := w.commit()
	var mu sync.Mutex
	var got []*proto.NotificationBatch
	var fin error
	done := false
	ctx, cancel := context.WithCancel(context.Background())
	req := &proto.NotificationsRequest{Shard: w.shard, StartOffsetExclusive: start}
	w.leader.lc.GetNotifications(ctx, req, concurrent.NewStreamOnce(func(b *proto.NotificationBatch) error {
		mu.Lock()
		got = append(got, b)
		mu.Unlock()
		return nil
	}, func(err error) {
		mu.Lock()
		fin, done = err, true
		mu.Unlock()
	}))
	want, dummy := w.expectedStream(start, qc)
	target := len(want)
	if dummy {
		target++
	}
	deadline := time.Now().Add(opTimeout)
	for {
		mu.Lock()
		n, d := len(got), done
		mu.Unlock()
		if n >= target || d || time.Now().After(deadline) {
			break
		}
		time.Sleep(100 * time.Microsecond)
	}
	time.Sleep(time.Millisecond) // anything beyond the expected batches would follow at once
	mu.Lock()
	snap := append([]*proto.NotificationBatch(nil), got...) // what happened before the harness hangs up
	sdone, sfin := done, fin
	mu.Unlock()
	cancel()
	op := fmt.Sprintf("GN:%s:%d", optI(start), qc)
	if sdone && sfin != nil && len(snap) == 0 {
		w.record(op, "err:"+errKind(sfin))
		w.o.Count("raw-stream:err")
		return
	}
	var xs []string
	for _, b := range snap {
		xs = append(xs, batchS(b))
	}
	w.record(op, join(xs, ","))
	w.o.Count("raw-stream")
	w.judgeStream(op, snap, want, dummy, qc)
}

func errKind(err error) string {
	if strings.Contains(err.Error(), "notifications not enabled") || strings.Contains(err.Error(), "notifications disabled") {
		return "notifications_disabled"
	}
	return "other"
}

// judgeStream: dummy first (if expected), then exactly the retained batches above the position, in order.
func (w *world) judgeStream(ctx string, got []*proto.NotificationBatch, want []int64, dummy bool, qc int64) {
	i := 0
	if dummy {
		if len(got) == 0 || got[0].Offset != qc || len(got[0].Notifications) != 0 {
			w.viol("notif:gap-or-duplicate-on-resume", "%s: the first batch is not the dummy batch at the commit offset %d", ctx, qc)
			return
		}
		i = 1
	}
	var offs []int64
	for _, b := range got[i:] {
		offs = append(offs, b.Offset)
		if b.Offset > w.applied() {
			w.viol("notif:delivered-above-commit", "%s: batch %d, applied commit offset %d", ctx, b.Offset, w.applied())
			return
		}
	}
	if fmt.Sprint(offs) != fmt.Sprint(want) {
		w.viol("notif:gap-or-duplicate-on-resume", "%s: delivered offsets %v, retained batches above the position %v", ctx, offs, want)
		return
	}
	for _, b := range got[i:] {
		if notifsS(b.Notifications) != w.want[b.Offset] {
			w.viol("notif:batch-content-differs", "%s: delivered %s, expected notifications %s", ctx, batchS(b), w.want[b.Offset])
			return
		}
	}
}

func eventS(n *oxia.Notification) string {
	s := hexs(n.Key) + "~"
	switch n.Type {
	case oxia.KeyCreated:
		s += "c" + strconv.FormatInt(n.VersionId, 10)
	case oxia.KeyModified:
		s += "m" + strconv.FormatInt(n.VersionId, 10)
	case oxia.KeyDeleted:
		s += "d"
	case oxia.KeyRangeRangeDeleted:
		s += "r" + hexs(n.KeyRangeEnd)
	}
	return s
}

// judgeClient: the notifications handed to the application are those of exactly the expected batches, batch by batch.
func (w *world) judgeClient(ctx string, events []*oxia.Notification, batches []int64) {
	i := 0
	for _, off := range batches {
		wantTxt := w.want[off]
		var want []string
		if wantTxt != "-" {
			want = strings.Split(wantTxt, "&")
		}
		if i+len(want) > len(events) {
			w.viol("notif:gap-or-duplicate-on-resume", "%s: the application did not receive the notifications of batch %d (%s)", ctx, off, wantTxt)
			return
		}
		var got []string
		for _, e := range events[i : i+len(want)] {
			got = append(got, eventS(e))
		}
		sort.Strings(got)
		if join(got, "&") != join(want, "&") {
			w.viol("notif:gap-or-duplicate-on-resume", "%s: for batch %d the application received %s, expected %s", ctx, off, join(got, "&"), wantTxt)
			return
		}
		i += len(want)
	}
	if i != len(events) {
		w.viol("notif:gap-or-duplicate-on-resume", "%s: %d notifications beyond the expected batches %v", ctx, len(events)-i, batches)
	}
}

func eventsS(events []*oxia.Notification) string {
	var xs []string
	for _, e := range events {
		xs = append(xs, eventS(e))
	}
	sort.Strings(xs)
	return join(xs, "&")
}

// clientConnect: client i (re)connects and receives at most k batches. keepOpen leaves the stream up (k = all).
func (w *world) clientConnect(i, k int, keepOpen bool) {
	s := w.subs[i]
	if s == nil {
		s = newSubscriber(i, w.shard, w)
		w.subs[i] = s
	}
	qc := w.commit()
	var pos *int64
	if s.v.Initialized() {
		pos = p64(s.v.LastOffsetReceived())
	}
	want, dummy := w.expectedStream(pos, qc)
	st, err := s.connect(k)
	op := fmt.Sprintf("CC%d:%d:%d", i, k, qc)
	if err != nil || st == nil {
		w.record(op, "req=?|err")
		return
	}
	target := maxOf(want)
	if dummy && qc > target {
		target = qc
	}
	if !st.settle(target, opTimeout) {
		w.o.Count("client:settle-timeout")
	}
	events := s.drain()
	st.mu.Lock()
	passed := append([]*proto.NotificationBatch(nil), st.passed...)
	finished, finErr := st.finished, st.finErr
	st.mu.Unlock()
	if !keepOpen || finished {
		_ = s.disconnect()
		w.open[i] = false
	} else {
		w.open[i] = true
		w.openPos[i] = s.v.LastOffsetReceived()
	}
	if finished && finErr != nil && len(passed) == 0 {
		w.record(op, fmt.Sprintf("req=%s|ev=-|last=%d", optI(st.start), s.v.LastOffsetReceived()))
		w.o.Count("client:stream-error")
		return
	}
	w.record(op, fmt.Sprintf("req=%s|ev=%s|last=%d", optI(st.start), eventsS(events), s.v.LastOffsetReceived()))
	w.o.Count("client:connect")
	// verdict: position known to the harness, not what the client chose to send
	expTotal := len(want)
	if dummy {
		expTotal++
	}
	n := k
	if n > expTotal {
		n = expTotal
	}
	wantBatches := want
	if dummy {
		if n == 0 {
			wantBatches = nil
		} else {
			wantBatches = want[:n-1]
		}
	} else {
		wantBatches = want[:n]
	}
	ctx := fmt.Sprintf("%s (client position before: %s, commit offset %d)", op, optI(pos), qc)
	for _, b := range passed {
		if b.Offset > w.applied() && b.Offset != qc {
			w.viol("notif:delivered-above-commit", "%s: batch %d went down the stream, applied commit offset %d", ctx, b.Offset, w.applied())
		}
	}
	w.judgeClient(ctx, events, wantBatches)
	if n > 0 {
		wantLast := qc
		if !dummy {
			wantLast = *pos
		}
		if len(wantBatches) > 0 {
			wantLast = wantBatches[len(wantBatches)-1]
		}
		if got := s.v.LastOffsetReceived(); got != wantLast {
			w.viol("notif:gap-or-duplicate-on-resume", "%s: the client is positioned at %d, expected %d", ctx, got, wantLast)
		}
	}
}

// clientContinue: client i kept its stream; after further writes it must have received exactly their batches.
func (w *world) clientContinue(i int) {
	s := w.subs[i]
	if s == nil || !w.open[i] || s.cur == nil {
		return
	}
	qc := w.commit()
	pos := p64(w.openPos[i])
	want, _ := w.expectedStream(pos, qc)
	if !s.cur.settle(maxOf(want), opTimeout) {
		w.o.Count("client:settle-timeout")
	}
	events := s.drain()
	_ = s.disconnect()
	w.open[i] = false
	op := fmt.Sprintf("CL%d:%d", i, qc)
	w.record(op, fmt.Sprintf("ev=%s|last=%d", eventsS(events), s.v.LastOffsetReceived()))
	w.o.Count("client:continue")
	w.judgeClient(op, events, want)
}

func (w *world) closeOpenStreams() {
	for i := range w.open {
		if w.open[i] {
			w.clientContinue(i)
		}
	}
}

func (w *world) leaderChange(enabled bool) {
	w.closeOpenStreams()
	old := w.leader
	old.closeController()
	entries := old.walEntries()
	nw := newNode(w.shard)
	nw.preload(entries)
	nw.start()
	w.term++
	nw.becomeLeader(w.term, enabled, false)
	server.VerifWrapLeaderDB(nw.lc, func(d kv.DB) kv.DB { return &gateDB{DB: d} })
	w.leader = nw
	w.enabled = enabled
	old.destroy()
	w.record(fmt.Sprintf("L:%d", b2i(enabled)), "ok")
	w.o.Count("leader-change")
	// the new leader replayed the whole log under its own term options
	for off := int64(0); off < w.nextOff; off++ {
		w.checkStored(off, fmt.Sprintf("after the leader change (term %d)", w.term))
	}
}

func b2i(b bool) int {
	if b {
		return 1
	}
	return 0
}

func (w *world) leaderStore() kv.KV {
	w.leader.kvf.mu.Lock()
	defer w.leader.kvf.mu.Unlock()
	return w.leader.kvf.store
}

func (w *world) trim(now, ret int64) {
	w.closeOpenStreams()
	before, byOff := w.storedOffsets()
	clk := &oxtime.MockedClock{}
	clk.Set(now)
	err := kv.VerifTrimNotifications(w.leaderStore(), time.Duration(ret)*time.Millisecond, clk)
	after, _ := w.storedOffsets()
	res := "nothing"
	if err != nil {
		res = "err"
	} else if len(after) != len(before) {
		res = "trimmed"
	}
	w.record(fmt.Sprintf("X:%d:%d", now, ret), res)
	w.o.Count("trim:" + res)
	w.judgeTrim(before, after, byOff, now, ret, -1)
}

// judgeTrim: what a round may remove. [written] = offset of a request applied during the round (-1: none).
func (w *world) judgeTrim(before, after []int64, byOff map[int64]*proto.NotificationBatch, now, ret, written int64) {
	kept := map[int64]bool{}
	minKept := int64(-1)
	for _, o := range after {
		kept[o] = true
		if minKept < 0 && o != written {
			minKept = o
		}
	}
	for _, o := range before {
		if kept[o] {
			continue
		}
		if minKept >= 0 && o > minKept {
			w.viol("notif:trimmed-within-retention", "trim now=%d retention=%d removed offset %d but kept the lower offset %d", now, ret, o, minKept)
			return
		}
		if int64(byOff[o].Timestamp) > now-ret {
			w.viol("notif:trimmed-within-retention", "trim now=%d retention=%d removed offset %d with timestamp %d", now, ret, o, byOff[o].Timestamp)
			return
		}
	}
}

// gateKV fires once, when the trimmer creates its write batch (all its reads are done, nothing is written yet).
type gateKV struct {
	kv.KV
	fire  func()
	fired bool
}

func (g *gateKV) NewWriteBatch() kv.WriteBatch {
	if !g.fired {
		g.fired = true
		g.fire()
	}
	return g.KV.NewWriteBatch()
}

// trimWithWrite: the shard has been idle for longer than the retention; a request commits while the round runs.
func (w *world) trimWithWrite(ret int64, req *wreq) {
	w.closeOpenStreams()
	time.Sleep(2 * time.Millisecond) // every stored timestamp is now at least one millisecond old
	now := time.Now().UnixMilli()
	before, byOff := w.storedOffsets()
	var wres string
	inside := false
	gate := &gateKV{KV: w.leaderStore(), fire: func() { wres = w.applyWrite(req); inside = true }}
	clk := &oxtime.MockedClock{}
	clk.Set(now)
	err := kv.VerifTrimNotifications(gate, time.Duration(ret)*time.Millisecond, clk)
	if !gate.fired {
		wres = w.applyWrite(req)
	}
	after, _ := w.storedOffsets()
	xres := "nothing"
	if err != nil {
		xres = "err"
	} else {
		k := map[int64]bool{}
		for _, o := range after {
			k[o] = true
		}
		for _, o := range before {
			if !k[o] {
				xres = "trimmed"
			}
		}
	}
	op := fmt.Sprintf("XW:%d:%d:%s", now, ret, req.String()[2:])
	w.record(op, xres+"|"+wres)
	w.o.Count("trim-with-write:" + xres)
	if inside {
		w.o.Count("write-landed-inside-round")
	}
	w.judgeTrim(before, after, byOff, now, ret, req.offset)
	sig := "notif:batch-missing"
	if inside && int64(req.ts) > now-ret {
		sig = "notif:unexpired-batch-trimmed"
	}
	w.checkStoredSig(req.offset, op, sig)
	if w.enabled {
		w.rawStream(p64(req.offset - 1))
		if got := w.res[len(w.res)-1]; !strings.HasPrefix(got, fmt.Sprintf("%d/%d/", w.shard, req.offset)) {
			w.viol(sig, "%s: a subscriber resuming at %d receives %s, not the batch of offset %d (timestamp %d)", op, req.offset-1, got, req.offset, req.ts)
		}
	}
}

// ---------------------------------------------------------------- scenarios

func runScenario(o *hx.Out, rng *hx.Rng, tag string, script func(w *world)) {
	runScenarioWith(o, rng, tag, nil, script)
}

func runScenarioWith(o *hx.Out, rng *hx.Rng, tag string, setup func(w *world), script func(w *world)) {
	shard := int64(1 + rng.Intn(9))
	w := &world{o: o, rng: rng, tag: tag, shard: shard, term: 1, enabled: true, ref: &refState{exists: map[string]bool{}},
		want: map[int64]string{}, tsOf: map[int64]uint64{}, subs: map[int]*subscriber{}, open: map[int]bool{}, openPos: map[int]int64{}, vers: map[string]int64{}}
	w.leader = newNode(shard)
	w.leader.start()
	if setup != nil {
		setup(w)
	} else {
		w.leader.becomeLeader(1, true, false)
		server.VerifWrapLeaderDB(w.leader.lc, func(d kv.DB) kv.DB { return &gateDB{DB: d} })
	}
	defer func() {
		if w.follower != nil {
			w.follower.destroy()
		}
		for _, s := range w.subs {
			_ = s.disconnect()
			s.v.Cancel()
		}
		w.leader.destroy()
	}()
	script(w)
	w.closeOpenStreams()
	o.Case("nseq", fmt.Sprintf("%d %d %s", shard, kv.DeleteRangeThreshold, strings.Join(w.ops, ";")), strings.Join(w.res, ";"),
		fmt.Sprintf("%d", rng.U64()))
}

// the O-17 scenario: initialised on an empty shard, stream breaks, writes, reconnect
func scriptEmptyShardReconnect(w *world) {
	w.clientConnect(0, 1, false) // the dummy batch at offset -1 only
	for i := 0; i < 3; i++ {
		w.write(&wreq{puts: []putOp{{key: fmt.Sprintf("k%d", i), value: []byte("v")}}})
	}
	w.clientConnect(0, allBatches, false)
	w.o.Count("scenario:empty-shard-reconnect")
}

// a subscriber whose successors were all trimmed (the dispatch loop finds lastOffset ahead of an empty range) stays
// connected while requests commit one by one: it must receive every one of their batches
func scriptBehindTrimThenWrites(w *world) {
	w.clientConnect(0, 1, false) // initialised on the empty shard: position -1
	for i := 0; i < 4; i++ {
		w.write(&wreq{puts: []putOp{{key: fmt.Sprintf("t%d", i), value: []byte("v")}}})
	}
	time.Sleep(2 * time.Millisecond)
	w.trim(time.Now().UnixMilli(), 1) // everything stored has expired
	w.clientConnect(0, allBatches, true)
	for i := 0; i < 40; i++ {
		w.write(&wreq{puts: []putOp{{key: fmt.Sprintf("n%d", i%5), value: []byte("v")}}})
	}
	w.clientContinue(0)
	w.o.Count("scenario:behind-trim-then-writes")
}

// bulk: n small writes; the stored batch is checked for every 40th; a pause of two milliseconds at the given offsets, so that
// a trimming round can cut exactly there (the leader stamps wall-clock milliseconds)
func (w *world) bulk(n int, pauseBefore map[int64]bool) {
	for i := 0; i < n; i++ {
		if pauseBefore[w.nextOff] {
			time.Sleep(2 * time.Millisecond)
		}
		req := &wreq{puts: []putOp{{key: keys[i%7], value: []byte{byte('0' + i%10)}}}}
		res := w.applyWrite(req)
		w.record(req.String(), res)
		if i%40 == 0 {
			w.checkStored(req.offset, "request "+req.String())
		}
	}
}

// scale: hundreds of offsets. A trimming round removes the long prefix 0..t, so that a subscriber resuming at s < t finds
// t-s offsets without a batch in front of the retained ones: 99 / 100 / 101 / many; backlogs of > 100 and > 1000 batches
// for raw streams and for the client manager.
func scriptScale(n int) func(w *world) {
	return func(w *world) {
		t := int64(100 + w.rng.Intn(n/3))
		w.clientConnect(0, 1, false) // a client initialised at the very beginning: it will have the whole backlog to catch up
		w.bulk(n, map[int64]bool{t + 1: true})
		last := w.nextOff - 1
		none := func() map[gatePoint]int { return map[gatePoint]int{} }
		for _, s := range []int64{-1, last - 101, last - 100} {
			w.gatedStream(p64(s), none(), "scale: backlog")
		}
		w.clientConnect(0, allBatches, false)
		w.clientConnect(1, 3, false) // a second client that has seen offsets 0 and 1 only
		_, byOff := w.storedOffsets()
		w.trim(int64(byOff[t].Timestamp)+1000, 1000) // everything up to t has expired, t+1.. is retained
		offs, _ := w.storedOffsets()
		if len(offs) == 0 || offs[0] != t+1 {
			w.o.Count("scale:trim-cut-not-exact")
		}
		for _, s := range []int64{-1, 10, t - 101, t - 100, t - 99, t - 98, t - 1, t, t + 1} {
			w.gatedStream(p64(s), none(), "scale: resuming in front of a trimmed run")
		}
		w.clientConnect(1, allBatches, false)
		w.write(w.genRequest())
		for _, s := range []int64{10, t - 100, t} {
			w.gatedStream(p64(s), none(), "scale: after a later commit")
		}
		w.o.Count("scenario:scale")
	}
}

func (w *world) randomPlan() map[gatePoint]int {
	plan := map[gatePoint]int{}
	for i, n := 0, 1+w.rng.Intn(3); i < n; i++ {
		plan[gatePoint{hx.Pick(w.rng, []string{"pre", "scan", "post", "post"}), 1 + w.rng.Intn(2)}] = 1 + w.rng.Intn(2)
	}
	return plan
}

// gatedStep: a subscriber resuming behind a fully trimmed range / inside a partly trimmed range / at the commit
// offset / ahead of it / without a position, with requests committing at chosen points of its dispatch loop
func (w *world) gatedStep(kind int, plan map[gatePoint]int) {
	c := w.nextOff - 1
	offs, _ := w.storedOffsets()
	switch kind {
	case 0: // behind a fully trimmed range
		if len(offs) > 0 {
			time.Sleep(2 * time.Millisecond)
			w.trim(time.Now().UnixMilli(), 1)
		}
		s := int64(-1)
		if c > 0 {
			s = int64(w.rng.Intn(int(c)))
		}
		w.gatedStream(p64(s), plan, "behind a fully trimmed range")
	case 1: // inside a partly trimmed range
		if len(offs) >= 2 {
			_, byOff := w.storedOffsets()
			w.trim(int64(byOff[offs[len(offs)/2]].Timestamp), 0)
		}
		offs, _ = w.storedOffsets()
		s := c
		if len(offs) > 0 {
			s = hx.Pick(w.rng, offs) - int64(w.rng.Intn(2))
		}
		w.gatedStream(p64(s), plan, "inside a partly trimmed range")
	case 2:
		w.gatedStream(p64(c), plan, "at the commit offset")
	case 3:
		w.gatedStream(p64(c+1+int64(w.rng.Intn(2))), plan, "ahead of the commit offset")
	default:
		w.gatedStream(nil, plan, "new subscriber")
	}
}

// every position, with commits right after the first scan returned and before / inside the second read
func scriptGated(w *world) {
	for i := 0; i < 4; i++ {
		w.write(w.genRequest())
	}
	for kind := 0; kind < 5; kind++ {
		w.gatedStep(kind, map[gatePoint]int{{"post", 1}: 2})
		w.gatedStep(kind, map[gatePoint]int{{"scan", 1}: 1, {"pre", 2}: 1, {"scan", 2}: 1})
		w.write(w.genRequest())
	}
	w.o.Count("scenario:gated-positions")
}

func scriptRandom(w *world) {
	rng := w.rng
	steps := 10 + rng.Intn(18)
	if rng.Chance(30) { // a subscriber from the very beginning (empty shard)
		w.clientConnect(0, 1+rng.Intn(2), false)
	}
	for i := 0; i < steps; i++ {
		switch x := rng.Intn(100); {
		case x < 42:
			for j, n := 0, 1+rng.Intn(3); j < n; j++ {
				w.write(w.genRequest())
			}
		case x < 57:
			c := w.nextOff - 1
			starts := []*int64{nil, p64(-1), p64(0), p64(c), p64(c - 1), p64(c / 2), p64(c + 1), p64(c - 2)}
			w.rawStream(hx.Pick(rng, starts))
		case x < 80:
			i := rng.Intn(3)
			if w.open[i] {
				w.clientContinue(i)
				break
			}
			k := hx.Pick(rng, []int{0, 1, 1, 2, 3, allBatches, allBatches, allBatches})
			w.clientConnect(i, k, k == allBatches && rng.Chance(50))
		case x < 84:
			en := w.enabled
			if rng.Chance(20) {
				en = !en
			}
			w.leaderChange(en)
		case x < 87:
			w.gatedStep(rng.Intn(5), w.randomPlan())
		case x < 92:
			w.trimWithWrite(int64(hx.Pick(rng, []int{1, 5, 1000})), w.genRequest())
		case x < 98:
			offs, byOff := w.storedOffsets()
			if len(offs) == 0 {
				break
			}
			b := byOff[hx.Pick(rng, offs)]
			ret := int64(hx.Pick(rng, []int{0, 1, 1000}))
			cut := int64(b.Timestamp) + int64(rng.Intn(3)) - 1
			w.trim(cut+ret, ret)
		default:
			// every start offset there is
			for s := int64(-1); s <= w.nextOff; s++ {
				w.rawStream(p64(s))
			}
		}
	}
	for i := range w.subs {
		if !w.open[i] {
			w.clientConnect(i, allBatches, false)
		}
	}
}

func genCases(o *hx.Out, rng *hx.Rng, n int) {
	runScenario(o, rng.Fork(), "empty-shard-reconnect", scriptEmptyShardReconnect)
	runScenario(o, rng.Fork(), "gated-positions", scriptGated)
	runScenario(o, rng.Fork(), "scale-300", scriptScale(150+rng.Intn(250)))
	if n >= 100 {
		runScenario(o, rng.Fork(), "scale-1100", scriptScale(1100))
	}
	runScenario(o, rng.Fork(), "behind-trim-then-writes", scriptBehindTrimThenWrites)
	for c := 0; c < n; c++ {
		crng := rng.Fork()
		if c%6 == 0 {
			// a real follower on an empty directory, promoted later; every 5th of them with notifications disabled by the term options
			en := c%30 != 24
			runScenarioWith(o, crng, fmt.Sprintf("replicated#%d", c), func(w *world) { w.setupReplicated(en) }, scriptReplicated)
			continue
		}
		runScenario(o, crng, fmt.Sprintf("notif#%d", c), scriptRandom)
	}
}

func main() {
	mode := flag.String("mode", "", "uncommitted | real-client | (default) generated scenarios with model comparison")
	f := hx.ParseFlags()
	o := hx.NewOut(f.OutDir)
	defer o.Close()
	if f.Replay != "" {
		// replays of this leg re-run the generated scenarios of the recorded seed: the case lines carry wall-clock timestamps
		// of the original run and cannot be forced on the leader
		genCases(o, hx.NewRng(f.Seed), f.N)
		return
	}
	switch *mode {
	case "uncommitted":
		runUncommitted(o, hx.NewRng(f.Seed), f.N)
		rounds := 30000
		if f.Tier == "thorough" {
			rounds = 400000
		}
		runWakeup(o, rounds)
	case "real-client":
		runRealClient(o)
	default:
		genCases(o, hx.NewRng(f.Seed), f.N)
	}
}
