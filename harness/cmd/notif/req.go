package main

// Write requests in the text grammar of harness/cmd/db (W ops), and the independent reference of what a request's
// notification batch must contain (the same rule as harness/cmd/db/c17_notif.go:c17Changes, kept separate because
// the two harnesses are separate programs).

import (
	"fmt"
	"sort"
	"strconv"
	"strings"

	"github.com/oxia-db/oxia/common/compare"
	"github.com/oxia-db/oxia/proto"

	"verif/harness/internal/hx"
)

const internalPrefix = "__oxia/"

func hexs(s string) string { return hx.Hex([]byte(s)) }
func optI(p *int64) string {
	if p == nil {
		return "n"
	}
	return strconv.FormatInt(*p, 10)
}
func optS(p *string) string {
	if p == nil {
		return "n"
	}
	return hexs(*p)
}
func join(xs []string, sep string) string {
	if len(xs) == 0 {
		return "-"
	}
	return strings.Join(xs, sep)
}

type putOp struct {
	key    string
	value  []byte
	exp    *int64
	part   *string
	deltas []uint64
}
type delOp struct {
	key string
	exp *int64
}
type rangeOp struct{ start, end string }
type wreq struct {
	offset int64
	ts     uint64
	puts   []putOp
	dels   []delOp
	ranges []rangeOp
}

func (w *wreq) String() string {
	var ps, ds, rs []string
	for _, p := range w.puts {
		var de []string
		for _, d := range p.deltas {
			de = append(de, strconv.FormatUint(d, 10))
		}
		ps = append(ps, strings.Join([]string{hexs(p.key), hx.Hex(p.value), optI(p.exp), "n", "n", optS(p.part), join(de, "+"), "-"}, ","))
	}
	for _, d := range w.dels {
		ds = append(ds, hexs(d.key)+","+optI(d.exp))
	}
	for _, r := range w.ranges {
		rs = append(rs, hexs(r.start)+","+hexs(r.end))
	}
	return fmt.Sprintf("W:%d:%d:%s:%s:%s", w.offset, w.ts, join(ps, "|"), join(ds, "|"), join(rs, "|"))
}

func (w *wreq) toProto() *proto.WriteRequest {
	req := &proto.WriteRequest{}
	for _, p := range w.puts {
		pr := &proto.PutRequest{Key: p.key, Value: append([]byte(nil), p.value...), SequenceKeyDelta: append([]uint64(nil), p.deltas...)}
		if p.exp != nil {
			v := *p.exp
			pr.ExpectedVersionId = &v
		}
		if p.part != nil {
			v := *p.part
			pr.PartitionKey = &v
		}
		req.Puts = append(req.Puts, pr)
	}
	for _, d := range w.dels {
		dr := &proto.DeleteRequest{Key: d.key}
		if d.exp != nil {
			v := *d.exp
			dr.ExpectedVersionId = &v
		}
		req.Deletes = append(req.Deletes, dr)
	}
	for _, r := range w.ranges {
		req.DeleteRanges = append(req.DeleteRanges, &proto.DeleteRangeRequest{StartInclusive: r.start, EndExclusive: r.end})
	}
	return req
}

// ---- canonical text of responses and batches (the format of harness/cmd/db)

func versionS(v *proto.Version) string {
	return fmt.Sprintf("%d/%d/%d/%d/%s/%s", v.VersionId, v.ModificationsCount, v.CreatedTimestamp, v.ModifiedTimestamp,
		optI(v.SessionId), optS(v.ClientIdentity))
}

func respS(resp *proto.WriteResponse) string {
	var ps, ds, rs []string
	for _, p := range resp.Puts {
		if p.Status == proto.Status_OK && p.Version != nil {
			ps = append(ps, "OK/"+versionS(p.Version)+"/"+optS(p.Key))
		} else {
			ps = append(ps, p.Status.String())
		}
	}
	for _, d := range resp.Deletes {
		ds = append(ds, d.Status.String())
	}
	for _, r := range resp.DeleteRanges {
		rs = append(rs, r.Status.String())
	}
	return "ok:" + join(ps, ",") + ":" + join(ds, ",") + ":" + join(rs, ",")
}

func notifS(key string, n *proto.Notification) string {
	s := hexs(key) + "~"
	switch n.Type {
	case proto.NotificationType_KEY_CREATED:
		s += "c" + optI(n.VersionId)
	case proto.NotificationType_KEY_MODIFIED:
		s += "m" + optI(n.VersionId)
	case proto.NotificationType_KEY_DELETED:
		s += "d"
	case proto.NotificationType_KEY_RANGE_DELETED:
		s += "r" + hexs(n.GetKeyRangeLast())
	}
	return s
}

func notifsS(m map[string]*proto.Notification) string {
	var xs []string
	for k, n := range m {
		xs = append(xs, notifS(k, n))
	}
	sort.Strings(xs)
	return join(xs, "&")
}

func batchS(b *proto.NotificationBatch) string {
	return fmt.Sprintf("%d/%d/%d/%s", b.Shard, b.Offset, b.Timestamp, notifsS(b.Notifications))
}

// ---- the reference: which user keys the request created / modified / deleted / range-deleted

type refState struct {
	exists map[string]bool // user keys holding a record
}

// changes returns the canonical notifications text expected for the request, given its response, and
// advances the reference state.
func (r *refState) changes(w *wreq, resp *proto.WriteResponse) string {
	ev := map[string]string{}
	set := func(k, v string) {
		if !strings.HasPrefix(k, internalPrefix) {
			ev[k] = v
		}
	}
	for i, p := range w.puts {
		pr := resp.Puts[i]
		if pr.Status != proto.Status_OK || pr.Version == nil {
			continue
		}
		k, created := p.key, false
		if len(p.deltas) > 0 {
			if pr.Key == nil {
				continue
			}
			k, created = *pr.Key, true
		} else {
			created = !r.exists[k]
		}
		r.exists[k] = true
		if created {
			set(k, "c"+strconv.FormatInt(pr.Version.VersionId, 10))
		} else {
			set(k, "m"+strconv.FormatInt(pr.Version.VersionId, 10))
		}
	}
	for i, d := range w.dels {
		if resp.Deletes[i].Status == proto.Status_OK {
			delete(r.exists, d.key)
			set(d.key, "d")
		}
	}
	for i, rg := range w.ranges {
		if resp.DeleteRanges[i].Status != proto.Status_OK {
			continue
		}
		for k := range r.exists {
			if compare.CompareWithSlash([]byte(rg.start), []byte(k)) <= 0 && compare.CompareWithSlash([]byte(k), []byte(rg.end)) < 0 {
				delete(r.exists, k)
			}
		}
		if compare.CompareWithSlash([]byte(rg.start), []byte(rg.end)) >= 0 {
			continue // an empty range deletes nothing and is not reported
		}
		if prev, ok := ev[rg.start]; ok && prev[0] == 'r' && compare.CompareWithSlash(hx.UnHex(prev[1:]), []byte(rg.end)) >= 0 {
			continue // same start: the range that covers both is the one reported
		}
		set(rg.start, "r"+hexs(rg.end))
	}
	var xs []string
	for k, v := range ev {
		xs = append(xs, hexs(k)+"~"+v)
	}
	sort.Strings(xs)
	return join(xs, "&")
}
