package main

// Two verdict-only scenarios (no model line is compared for them):
//   uncommitted   rf = 2, the follower's acknowledgements are held back: an entry that is appended to the leader's WAL but
//                 not committed must leave no batch in the store and nothing on a subscriber's stream
//   real-client   the O-17 scenario through newNotifications itself (goroutines + retry loop of oxia/notifications.go)

import (
	"context"
	"fmt"
	"sync"
	"time"

	"github.com/oxia-db/oxia/common/concurrent"
	"github.com/oxia-db/oxia/oxia"
	"github.com/oxia-db/oxia/proto"
	"github.com/oxia-db/oxia/server"

	"verif/harness/internal/hx"
)

func runUncommitted(o *hx.Out, rng *hx.Rng, n int) {
	for c := 0; c < n; c++ {
		crng := rng.Fork()
		shard := int64(1 + crng.Intn(9))
		nd := newNode(shard)
		nd.start()
		nd.becomeLeader(1, true, true)
		nHeld := 1 + crng.Intn(4)
		tag := fmt.Sprintf("uncommitted#%d (shard %d, %d entries held)", c, shard, nHeld)

		var mu sync.Mutex
		var got []*proto.NotificationBatch
		ctx, cancel := context.WithCancel(context.Background())
		nd.lc.GetNotifications(ctx, &proto.NotificationsRequest{Shard: shard}, concurrent.NewStreamOnce(
			func(b *proto.NotificationBatch) error { mu.Lock(); got = append(got, b); mu.Unlock(); return nil },
			func(error) {}))
		var outs []chan writeOutcome
		for i := 0; i < nHeld; i++ {
			outs = append(outs, nd.writeAsync(&proto.WriteRequest{Puts: []*proto.PutRequest{{Key: fmt.Sprintf("u%d", i), Value: []byte("v")}}}))
		}
		deadline := time.Now().Add(opTimeout)
		for nd.prov.f.received() < nHeld && time.Now().Before(deadline) {
			time.Sleep(200 * time.Microsecond)
		}
		time.Sleep(15 * time.Millisecond) // appended everywhere, acknowledged by nobody but the leader
		mu.Lock()
		early := len(got)
		var earlyOffs []int64
		for _, b := range got {
			earlyOffs = append(earlyOffs, b.Offset)
		}
		mu.Unlock()
		stored := len(nd.storedBatches())
		commit := server.VerifClusterLeaderCommitOffset(nd.lc)
		if early != 1 || stored != 0 || commit != -1 {
			o.Violation("notif:delivered-above-commit", fmt.Sprintf("%s: with no entry committed (commit offset %d) the stream carried offsets %v and %d batches are stored",
				tag, commit, earlyOffs, stored))
		}
		nd.prov.f.release()
		for _, ch := range outs {
			select {
			case <-ch:
			case <-time.After(opTimeout):
				o.Violation("notif:batch-missing", tag+": a write did not complete after the follower acknowledged")
			}
		}
		deadline = time.Now().Add(opTimeout)
		for time.Now().Before(deadline) {
			mu.Lock()
			k := len(got)
			mu.Unlock()
			if k >= 1+nHeld {
				break
			}
			time.Sleep(200 * time.Microsecond)
		}
		time.Sleep(time.Millisecond)
		cancel()
		mu.Lock()
		var offs []int64
		for _, b := range got {
			offs = append(offs, b.Offset)
		}
		mu.Unlock()
		want := []int64{-1}
		for i := 0; i < nHeld; i++ {
			want = append(want, int64(i))
		}
		if fmt.Sprint(offs) != fmt.Sprint(want) {
			o.Violation("notif:gap-or-duplicate-on-resume", fmt.Sprintf("%s: after the commit the stream carried %v, expected %v", tag, offs, want))
		}
		o.Case("uncommitted", fmt.Sprintf("%d %d", shard, nHeld), fmt.Sprintf("held:%v;released:%v", earlyOffs, offs), fmt.Sprintf("%d", crng.U64()))
		o.Count("uncommitted-scenario")
		nd.destroy()
	}
}

// runWakeup: a subscriber that waits for the next commit must be woken by it. One stream stays open; after every
// single write its batch must arrive promptly (a batch that only arrives with the NEXT write means the waiter missed
// the broadcast of its own commit: lost wake-up between the tracker's offset update and the waiter's Wait()).
func runWakeup(o *hx.Out, rounds int) {
	shard := int64(2)
	nd := newNode(shard)
	nd.start()
	nd.becomeLeader(1, true, false)
	defer nd.destroy()
	arrived := make(chan int64, 1<<16)
	ctx, cancel := context.WithCancel(context.Background())
	defer cancel()
	start := int64(-1)
	nd.lc.GetNotifications(ctx, &proto.NotificationsRequest{Shard: shard, StartOffsetExclusive: &start}, concurrent.NewStreamOnce(
		func(b *proto.NotificationBatch) error { arrived <- b.Offset; return nil }, func(error) {}))
	stalled := 0
	for i := 0; i < rounds; i++ {
		_, err := nd.write(&proto.WriteRequest{Puts: []*proto.PutRequest{{Key: "w", Value: []byte("v")}}})
		hx.Must(err)
		select {
		case off := <-arrived:
			if off != int64(i) {
				o.Violation("notif:gap-or-duplicate-on-resume", fmt.Sprintf("wake-up scenario: batch %d arrived, expected %d", off, i))
				return
			}
		case <-time.After(500 * time.Millisecond):
			stalled++
			o.Violation("notif:committed-batch-not-delivered", fmt.Sprintf("wake-up scenario: the batch of offset %d (committed and stored) did not reach a waiting "+
				"subscriber within 500 ms; it is delivered only when the next request commits", i))
			return
		}
	}
	o.Case("wakeup", fmt.Sprintf("%d", rounds), fmt.Sprintf("delivered:%d", rounds), "1")
	o.Count("wakeup-rounds")
}

type oneLeader struct{ nd *node }

func (l *oneLeader) getNotifications(ctx context.Context, req *proto.NotificationsRequest, cb concurrent.StreamCallback[*proto.NotificationBatch]) {
	l.nd.lc.GetNotifications(ctx, req, cb)
}

func runRealClient(o *hx.Out) {
	shard := int64(3)
	nd := newNode(shard)
	nd.start()
	nd.becomeLeader(1, true, false)
	defer nd.destroy()
	pool := newFakePool(&oneLeader{nd})
	pool.defaultAllowed = -1
	ctx, cancel := context.WithCancel(context.Background())
	defer cancel()
	nm, err := oxia.VerifNewNotifications(ctx, 5*time.Second, pool, []int64{shard}, func(int64) string { return "leader" })
	hx.Must(err)
	first := <-pool.newCh // the stream of the first connection: dummy batch at offset -1 received (newNotifications returned)
	first.breakNow()
	for i := 0; i < 3; i++ {
		_, err := nd.write(&proto.WriteRequest{Puts: []*proto.PutRequest{{Key: fmt.Sprintf("k%d", i), Value: []byte("v")}}})
		hx.Must(err)
	}
	var second *gstream
	select {
	case second = <-pool.newCh:
	case <-time.After(10 * time.Second):
		panic("the client did not reconnect")
	}
	var events []string
	timeout := time.After(3 * time.Second)
loop:
	for len(events) < 3 {
		select {
		case n := <-nm.Ch():
			events = append(events, eventS(n))
		case <-timeout:
			break loop
		}
	}
	res := fmt.Sprintf("reconnect-start=%s;events=%s", optI(second.start), join(events, ","))
	if len(events) != 3 {
		o.Violation("notif:gap-or-duplicate-on-resume", "real client (newNotifications, retry loop): initialised on an empty shard, stream broken, "+
			"3 puts committed, reconnected with start offset "+optI(second.start)+": the application received "+join(events, ",")+" instead of 3 notifications")
	}
	o.Case("realclient", "empty-shard-reconnect", res, "1")
	o.Count("real-client-scenario")
	second.breakNow()
	cancel()
}
