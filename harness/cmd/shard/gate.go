// harness shard, gated dispatcher leg: the REAL server-side shardAssignmentDispatcher with client streams whose Send
// is a gate owned by the scheduler.  A schedule interleaves client registrations, coordinator pushes (namespaces
// removed and re-created with other shard counts and fresh ids), Send completions / failures and client
// disconnects; pushes are delivered while first and later Sends are parked.  Specification, evaluated after every
// action: a client that waits for updates has received, as its LAST update, the dispatcher's current assignments
// for its namespace (otherwise it must have been cut off); at the end the real client shard map fed with what the
// client received is the partition the servers publish.  The same schedule runs on Oxia.Shard.Dispatcher.
package main

import (
	"context"
	"errors"
	"fmt"
	"net"
	"runtime"
	"sort"
	"strconv"
	"strings"
	"time"

	"google.golang.org/grpc/peer"

	"github.com/oxia-db/oxia/common/sharding"
	"github.com/oxia-db/oxia/oxia"
	"github.com/oxia-db/oxia/proto"

	"verif/harness/internal/hx"
)

const gateTimeout = 3 * time.Second

type gClient struct {
	id, ns   int
	ctx      context.Context
	cancel   context.CancelFunc
	entered  chan *proto.ShardAssignments
	gate     chan error
	done     chan error
	phase    byte // 's' parked in Send, 'w' waits for updates, 'e' stream ended, 'u' Send released, not yet settled
	pending  *proto.ShardAssignments
	recv     []*proto.ShardAssignments
	cm       *oxia.VerifShardMap
	reported bool
}

// Send parks until the scheduler releases it (plain channel receive: the goroutine is not in a select).
func (c *gClient) Send(a *proto.ShardAssignments) error { c.entered <- a; return <-c.gate }
func (c *gClient) Context() context.Context             { return c.ctx }

type world map[int][]sh

func (w world) String() string {
	if len(w) == 0 {
		return "-"
	}
	var names []int
	for k := range w {
		names = append(names, k)
	}
	sort.Ints(names)
	var parts []string
	for _, k := range names {
		parts = append(parts, strconv.Itoa(k)+"~"+fmtShards(w[k]))
	}
	return strings.Join(parts, "|")
}

func parseWorld(s string) world {
	w := world{}
	if s == "-" {
		return w
	}
	for _, p := range strings.Split(s, "|") {
		f := strings.SplitN(p, "~", 2)
		k, _ := strconv.Atoi(f[0])
		w[k] = parseShards(f[1])
	}
	return w
}

func (w world) proto() *proto.ShardAssignments {
	a := &proto.ShardAssignments{Namespaces: map[string]*proto.NamespaceShardsAssignment{}}
	for k, l := range w {
		nsa := &proto.NamespaceShardsAssignment{ShardKeyRouter: proto.ShardKeyRouter_XXHASH3}
		for _, s := range l {
			nsa.Assignments = append(nsa.Assignments, &proto.ShardAssignment{Shard: s.id, Leader: "x",
				ShardBoundaries: &proto.ShardAssignment_Int32HashRange{Int32HashRange: &proto.Int32HashRange{MinHashInclusive: s.min, MaxHashInclusive: s.max}}})
		}
		a.Namespaces[nsName(k)] = nsa
	}
	return a
}

func worldOf(a *proto.ShardAssignments) world {
	w := world{}
	for name, l := range pubOf(a) {
		var shards []sh
		for _, s := range l {
			shards = append(shards, sh{s.id, s.min, s.max})
		}
		w[nsNum(name)] = shards
	}
	return w
}

func (w world) filter(ns int) world {
	if l, ok := w[ns]; ok {
		return world{ns: l}
	}
	return world{}
}

// inSelectCount counts the goroutines that sit in the select of RegisterForUpdates (waiting for updates).
func inSelectCount() int {
	buf := make([]byte, 1<<20)
	for {
		n := runtime.Stack(buf, true)
		if n < len(buf) {
			buf = buf[:n]
			break
		}
		buf = make([]byte, 2*len(buf))
	}
	count := 0
	for _, g := range strings.Split(string(buf), "\n\n") {
		l := strings.SplitN(g, "\n", 3)
		if len(l) >= 2 && strings.Contains(l[0], "[select") &&
			strings.HasPrefix(l[1], "github.com/oxia-db/oxia/server.(*shardAssignmentDispatcher).RegisterForUpdates(") {
			count++
		}
	}
	return count
}

type dispRun struct {
	o       *hx.Out
	rig     *dispatcherRig
	clients []*gClient
	cur     world
	inited  bool
	acts    []string
	obs     []string
	settled bool
}

func (d *dispRun) client(id int) *gClient {
	for _, c := range d.clients {
		if c.id == id {
			return c
		}
	}
	return nil
}

func (d *dispRun) schedule() string { return strings.Join(d.acts, ";") }

// event waits for the client's next move: it enters a Send, or its stream ends.
func (d *dispRun) event(c *gClient, what string) bool {
	select {
	case m := <-c.entered:
		c.phase, c.pending = 's', m
		// what a client is sent is its namespace's part of the current assignments
		if got, want := worldOf(m).String(), d.cur.filter(c.ns).String(); got != want {
			d.o.Violation("server:forwarded-assignments-differ", fmt.Sprintf("client %d of ns%d is sent %s, current assignments give %s; schedule: %s", c.id, c.ns, got, want, d.schedule()))
		}
		return true
	case <-c.done:
		c.phase = 'e'
		return true
	case <-time.After(gateTimeout):
		d.o.Violation("dispatcher:client-missed-update", fmt.Sprintf("client %d of ns%d: %s: neither sent the update nor cut off within %v; schedule: %s", c.id, c.ns, what, gateTimeout, d.schedule()))
		d.settled = false
		return false
	}
}

// settle waits until every client whose Send was released has either ended or reached the select.
func (d *dispRun) settle() {
	deadline := time.Now().Add(gateTimeout)
	for {
		waiting, unknown := 0, 0
		for _, c := range d.clients {
			if c.phase == 'u' {
				select {
				case <-c.done:
					c.phase = 'e'
				case m := <-c.entered:
					c.phase, c.pending = 's', m
				default:
					unknown++
				}
			}
			if c.phase == 'w' {
				waiting++
			}
		}
		if unknown == 0 {
			return
		}
		if inSelectCount() == waiting+unknown {
			for _, c := range d.clients {
				if c.phase == 'u' {
					c.phase = 'w'
				}
			}
			return
		}
		if time.Now().After(deadline) {
			d.settled = false
			for _, c := range d.clients {
				if c.phase == 'u' {
					c.phase = 'w'
				}
			}
			return
		}
		runtime.Gosched()
		time.Sleep(20 * time.Microsecond)
	}
}

func (d *dispRun) act(a string) {
	d.acts = append(d.acts, a)
	body := a[1:]
	switch a[0] {
	case 'P':
		d.cur, d.inited = parseWorld(body), true
		d.rig.publish(d.cur.proto())
		for _, c := range d.clients {
			if c.phase == 'w' {
				d.event(c, "push "+body+" while it waits for updates")
			}
		}
	case 'G':
		f := strings.Split(body, "/")
		id, _ := strconv.Atoi(f[0])
		ns, _ := strconv.Atoi(f[1])
		ctx, cancel := context.WithCancel(peer.NewContext(context.Background(), &peer.Peer{Addr: &net.TCPAddr{IP: net.IPv4(127, 0, 0, 1), Port: id}}))
		c := &gClient{id: id, ns: ns, ctx: ctx, cancel: cancel, entered: make(chan *proto.ShardAssignments, 8),
			gate: make(chan error), done: make(chan error, 1), phase: 'u', cm: oxia.NewVerifShardMap()}
		d.clients = append(d.clients, c)
		go func() { c.done <- d.rig.d.RegisterForUpdates(&proto.ShardAssignmentsRequest{Namespace: nsName(ns)}, c) }()
		d.event(c, "registration")
	case 'S':
		id, _ := strconv.Atoi(body)
		c := d.client(id)
		c.gate <- nil
		c.recv = append(c.recv, c.pending)
		if l, ok := worldOf(c.pending)[c.ns]; ok {
			c.cm.Update(toClient(l))
		}
		c.pending, c.phase = nil, 'u'
		d.settle()
	case 'F':
		id, _ := strconv.Atoi(body)
		c := d.client(id)
		c.gate <- errors.New("stream broken")
		c.pending, c.phase = nil, 'u'
		d.event(c, "failed Send")
	case 'L':
		id, _ := strconv.Atoi(body)
		c := d.client(id)
		was := c.phase
		c.cancel()
		if was == 's' {
			c.gate <- c.ctx.Err()
		}
		c.pending, c.phase = nil, 'u'
		d.event(c, "disconnect")
	}
	// the specification: whoever waits for updates has the current assignments as its last update
	for _, c := range d.clients {
		if c.phase != 'w' || c.reported || !d.inited {
			continue
		}
		last := "nothing"
		if len(c.recv) > 0 {
			last = worldOf(c.recv[len(c.recv)-1]).String()
		}
		if want := d.cur.filter(c.ns).String(); last != want {
			c.reported = true
			d.o.Violation("dispatcher:client-missed-update", fmt.Sprintf("after %s client %d of ns%d waits for updates, its last update is %s, the dispatcher's current assignments are %s; schedule: %s", a, c.id, c.ns, last, want, d.schedule()))
		}
	}
	d.obs = append(d.obs, d.observe())
}

func (d *dispRun) observe() string {
	cs := append([]*gClient(nil), d.clients...)
	sort.Slice(cs, func(i, j int) bool { return cs[i].id < cs[j].id })
	if len(cs) == 0 {
		return "-"
	}
	var parts []string
	for _, c := range cs {
		last, pending := "n", "n"
		if len(c.recv) > 0 {
			last = "=" + worldOf(c.recv[len(c.recv)-1]).String()
		}
		if c.phase == 's' {
			pending = "=" + worldOf(c.pending).String()
		}
		parts = append(parts, fmt.Sprintf("%d/%c/%d/%s/%s", c.id, c.phase, len(c.recv), last, pending))
	}
	return strings.Join(parts, "&")
}

// finish releases every parked Send, checks the clients' shard maps against what the servers publish, and closes.
func (d *dispRun) finish() {
	for {
		var parked *gClient
		for _, c := range d.clients {
			if c.phase == 's' && (parked == nil || c.id < parked.id) {
				parked = c
			}
		}
		if parked == nil {
			break
		}
		d.act("S" + strconv.Itoa(parked.id))
	}
	for _, c := range d.clients {
		if c.phase != 'w' {
			continue
		}
		want, ok := d.cur[c.ns]
		if !ok {
			continue // the real client treats an update without its namespace as an error and subscribes again
		}
		d.o.Count("disp:client-map-checked")
		if got := fromClient(c.cm); fmtShards(got) != fmtShards(want) {
			d.o.Violation("client:map-not-partition-after-update", fmt.Sprintf("client %d of ns%d holds %s, the servers publish %s; schedule: %s", c.id, c.ns, fmtShards(got), fmtShards(want), d.schedule()))
			continue
		}
		for _, s := range want {
			for _, h := range []uint32{s.min, s.max} {
				if id, panicked := c.cm.Route(h); panicked || id != s.id {
					d.o.Violation("agree:client-and-published-route-differ", fmt.Sprintf("client %d of ns%d routes hash %d to %d (panicked=%v), the servers publish shard %d; schedule: %s", c.id, c.ns, h, id, panicked, s.id, d.schedule()))
				}
			}
		}
	}
	if d.settled {
		d.o.Case("disp", d.schedule(), strings.Join(d.obs, ";"), d.schedule())
	} else {
		d.o.Count("disp:unsettled(spec verdicts only)")
	}
	for _, c := range d.clients {
		if c.phase != 'e' {
			c.cancel()
			if c.phase == 's' {
				c.gate <- c.ctx.Err()
			}
			select {
			case <-c.done:
			case <-time.After(gateTimeout):
			}
		}
	}
	d.rig.close()
}

func newDispRun(o *hx.Out) *dispRun {
	return &dispRun{o: o, rig: newDispatcherRig(), cur: world{}, settled: true}
}

// runDisp replays a schedule.
func runDisp(o *hx.Out, schedule string) {
	d := newDispRun(o)
	for _, a := range strings.Split(schedule, ";") {
		c := (*gClient)(nil)
		if a[0] == 'S' || a[0] == 'F' || a[0] == 'L' {
			id, _ := strconv.Atoi(a[1:])
			c = d.client(id)
			if c == nil || c.phase == 'e' || (a[0] != 'L' && c.phase != 's') {
				continue // not applicable in this run (the implementation went another way): skip
			}
		}
		d.act(a)
		o.Count("disp:action-" + a[:1])
	}
	d.finish()
}

// genDisp draws a schedule against the running implementation.
func genDisp(o *hx.Out, r *hx.Rng) {
	d := newDispRun(o)
	w := world{}
	nextShard := int64(0)
	nextClient := 0
	mutate := func() string {
		for {
			changed := false
			for ns := 1; ns <= 2; ns++ {
				_, have := w[ns]
				switch x := r.Intn(100); {
				case x < 35:
				case have && x < 60:
					delete(w, ns)
					changed = true
				default: // (re-)created: other shard count, fresh ids
					n := uint32(1 + r.Intn(4))
					var l []sh
					for _, s := range sharding.GenerateShards(nextShard, n) {
						l = append(l, sh{s.Id, s.Min, s.Max})
					}
					nextShard += int64(n)
					w[ns] = l
					changed = true
				}
			}
			if changed {
				return w.String()
			}
		}
	}
	pick := func(pred func(*gClient) bool) *gClient {
		var l []*gClient
		for _, c := range d.clients {
			if pred(c) {
				l = append(l, c)
			}
		}
		if len(l) == 0 {
			return nil
		}
		return l[r.Intn(len(l))]
	}
	do := func(a string) { d.act(a); o.Count("disp:action-" + a[:1]) }
	if r.Chance(85) {
		do("P" + mutate())
	}
	if d.inited && len(w) > 0 && r.Chance(40) {
		// a client that got its snapshot and now waits: the next push parks it in a later Send
		ns := 1
		if _, ok := w[1]; !ok {
			ns = 2
		}
		nextClient++
		do(fmt.Sprintf("G%d/%d", nextClient, ns))
		do(fmt.Sprintf("S%d", nextClient))
		do("P" + mutate())
		o.Count("disp:preamble-waiting-client-pushed")
	}
	pushesWhileParked := 0
	for n := 10 + r.Intn(14); n > 0; n-- {
		parked := pick(func(c *gClient) bool { return c.phase == 's' })
		x := r.Intn(100)
		switch {
		case x < 20 && len(d.clients) < 6:
			nextClient++
			do(fmt.Sprintf("G%d/%d", nextClient, 1+r.Intn(2)))
		case x < 45 && pushesWhileParked < 3:
			if parked != nil {
				pushesWhileParked++
				o.Count("disp:push-while-a-send-is-parked")
				for _, c := range d.clients {
					if c.phase == 's' && len(c.recv) == 0 {
						o.Count("disp:push-while-first-send-is-parked")
					} else if c.phase == 's' {
						o.Count("disp:push-while-later-send-is-parked")
					}
				}
			}
			do("P" + mutate())
		case x < 85 && parked != nil:
			do("S" + strconv.Itoa(parked.id))
			pushesWhileParked = 0
			// the real client treats an update without its namespace as an error: it drops the stream
			if parked.phase == 'w' {
				if _, ok := worldOf(parked.recv[len(parked.recv)-1])[parked.ns]; !ok {
					do("L" + strconv.Itoa(parked.id))
				}
			}
		case x < 90 && parked != nil:
			do("F" + strconv.Itoa(parked.id))
		case x < 97:
			if c := pick(func(c *gClient) bool { return c.phase != 'e' }); c != nil {
				do("L" + strconv.Itoa(c.id))
			}
		}
	}
	d.finish()
}

// fixed schedules: the namespace is removed and re-created with another shard count while a client sits in its
// first Send / in a later Send; several clients; registration before the first push
var fixedDispCases = []string{
	"P1~0:0:2147483647,1:2147483648:4294967295;G1/1;P-;P1~2:0:1431655765,3:1431655766:2863311531,4:2863311532:4294967295;S1;G2/1;S2",
	"P1~0:0:4294967295;G1/1;S1;P1~1:0:2147483647,2:2147483648:4294967295;P1~3:0:4294967295;S1;G2/1;S2;P1~4:0:4294967295;S2",
	"G1/1;P1~0:0:4294967295|2~1:0:4294967295;G2/1;G3/2;G4/3;S2;P2~2:0:2147483647,3:2147483648:4294967295;S3;S2;L2;G5/2;S5",
	"P1~0:0:4294967295;G1/1;G2/1;S1;S2;P1~1:0:4294967295;F1;S2;L2;P1~2:0:4294967295",
}
