// harness shard, status leg: drives the REAL coordinator/utils.ApplyClusterChanges over config histories
// with a scripted (sometimes failing) ensemble supplier, stores the result in the REAL
// resources.StatusResource (memory metadata provider), completes shard deletions with the real
// DeleteShardMetadata, writes controller metadata with the real UpdateShardMetadata, and asks the real
// coordinator.computeNewAssignments what would be published.  The full status after every step is the
// observable compared with Oxia.Shard.Status; the C18 specification predicates are evaluated directly on
// the implementation's status / published assignments / client shard map.
package main

import (
	"errors"
	"fmt"
	"math"
	"sort"
	"strconv"
	"strings"

	"github.com/oxia-db/oxia/coordinator"
	"github.com/oxia-db/oxia/coordinator/metadata"
	"github.com/oxia-db/oxia/coordinator/model"
	"github.com/oxia-db/oxia/coordinator/resources"
	"github.com/oxia-db/oxia/coordinator/utils"
	"github.com/oxia-db/oxia/proto"

	"verif/harness/internal/hx"
)

// ---------------------------------------------------------------- case text

type nsCfg struct {
	name  int
	count uint32
	rf    uint32
}

type stOp struct {
	kind    byte // 'A' apply config, 'D' delete shard metadata, 'M' update shard metadata
	ns      []nsCfg
	servers []int
	name    int
	id      int64
	st      int
	term    int64
	leader  int // -1 = none
	ens     []int
	min     uint32
	max     uint32
}

func joinInts(xs []int) string {
	if len(xs) == 0 {
		return "-"
	}
	s := make([]string, len(xs))
	for i, x := range xs {
		s[i] = strconv.Itoa(x)
	}
	return strings.Join(s, "+")
}

func splitInts(s string) []int {
	if s == "-" || s == "" {
		return nil
	}
	var res []int
	for _, p := range strings.Split(s, "+") {
		x, _ := strconv.Atoi(p)
		res = append(res, x)
	}
	return res
}

func (o stOp) String() string {
	switch o.kind {
	case 'A', 'R', 'C', 'X':
		var ns []string
		for _, n := range o.ns {
			ns = append(ns, fmt.Sprintf("%d:%d:%d", n.name, n.count, n.rf))
		}
		nss := "-"
		if len(ns) > 0 {
			nss = strings.Join(ns, "+")
		}
		return string(o.kind) + nss + "|" + joinInts(o.servers)
	case 'D':
		return fmt.Sprintf("D%d:%d", o.name, o.id)
	default:
		l := "-"
		if o.leader >= 0 {
			l = strconv.Itoa(o.leader)
		}
		return fmt.Sprintf("M%d:%d:%d:%d:%s:%s:%d:%d", o.name, o.id, o.st, o.term, l, joinInts(o.ens), o.min, o.max)
	}
}

func parseStOp(s string) stOp {
	switch s[0] {
	case 'A', 'R', 'C', 'X':
		parts := strings.SplitN(s[1:], "|", 2)
		o := stOp{kind: s[0], servers: splitInts(parts[1])}
		if parts[0] != "-" {
			for _, p := range strings.Split(parts[0], "+") {
				f := strings.Split(p, ":")
				name, _ := strconv.Atoi(f[0])
				c, _ := strconv.ParseUint(f[1], 10, 32)
				rf, _ := strconv.ParseUint(f[2], 10, 32)
				o.ns = append(o.ns, nsCfg{name, uint32(c), uint32(rf)})
			}
		}
		return o
	case 'D':
		f := strings.Split(s[1:], ":")
		name, _ := strconv.Atoi(f[0])
		id, _ := strconv.ParseInt(f[1], 10, 64)
		return stOp{kind: 'D', name: name, id: id}
	default:
		f := strings.Split(s[1:], ":")
		name, _ := strconv.Atoi(f[0])
		id, _ := strconv.ParseInt(f[1], 10, 64)
		st, _ := strconv.Atoi(f[2])
		term, _ := strconv.ParseInt(f[3], 10, 64)
		leader := -1
		if f[4] != "-" {
			leader, _ = strconv.Atoi(f[4])
		}
		mn, _ := strconv.ParseUint(f[6], 10, 32)
		mx, _ := strconv.ParseUint(f[7], 10, 32)
		return stOp{kind: 'M', name: name, id: id, st: st, term: term, leader: leader, ens: splitInts(f[5]),
			min: uint32(mn), max: uint32(mx)}
	}
}

func nsName(k int) string { return "ns" + strconv.Itoa(k) }
func nsNum(s string) int  { k, _ := strconv.Atoi(strings.TrimPrefix(s, "ns")); return k }
func srv(k int) model.Server {
	return model.Server{Public: fmt.Sprintf("s%d:6648", k), Internal: fmt.Sprintf("s%d:6649", k)}
}
func srvNum(s string) int {
	k, _ := strconv.Atoi(strings.TrimPrefix(strings.SplitN(s, ":", 2)[0], "s"))
	return k
}
func srvNums(l []model.Server) []int {
	res := make([]int, len(l))
	for i, s := range l {
		res[i] = srvNum(s.Internal)
	}
	return res
}

// ---------------------------------------------------------------- canonical observables

func sortedNs[T any](m map[string]T) []string {
	names := make([]string, 0, len(m))
	for n := range m {
		names = append(names, n)
	}
	sort.Slice(names, func(i, j int) bool { return nsNum(names[i]) < nsNum(names[j]) })
	return names
}

func sortedIds(m map[int64]model.ShardMetadata) []int64 {
	ids := make([]int64, 0, len(m))
	for id := range m {
		ids = append(ids, id)
	}
	sort.Slice(ids, func(i, j int) bool { return ids[i] < ids[j] })
	return ids
}

func fmtStatus(cs *model.ClusterStatus) string {
	var sb strings.Builder
	fmt.Fprintf(&sb, "%d,%d", cs.ShardIdGenerator, cs.ServerIdx)
	if len(cs.Namespaces) == 0 {
		sb.WriteString("|-")
	}
	for _, name := range sortedNs(cs.Namespaces) {
		ns := cs.Namespaces[name]
		fmt.Fprintf(&sb, "|%d~%d~", nsNum(name), ns.ReplicationFactor)
		if len(ns.Shards) == 0 {
			sb.WriteString("-")
		}
		for i, id := range sortedIds(ns.Shards) {
			m := ns.Shards[id]
			if i > 0 {
				sb.WriteByte(',')
			}
			l := "-"
			if m.Leader != nil {
				l = strconv.Itoa(srvNum(m.Leader.Internal))
			}
			fmt.Fprintf(&sb, "%d:%d:%d:%s:%s:%d:%d", id, int(m.Status), m.Term, l, joinInts(srvNums(m.Ensemble)),
				m.Int32HashRange.Min, m.Int32HashRange.Max)
		}
	}
	return sb.String()
}

type pubShard struct {
	id       int64
	leader   string
	min, max uint32
}

func pubOf(a *proto.ShardAssignments) map[string][]pubShard {
	res := map[string][]pubShard{}
	for name, nsa := range a.Namespaces {
		l := []pubShard{}
		for _, sa := range nsa.Assignments {
			r := sa.GetInt32HashRange()
			l = append(l, pubShard{sa.Shard, sa.Leader, r.MinHashInclusive, r.MaxHashInclusive})
		}
		sort.Slice(l, func(i, j int) bool { return l[i].id < l[j].id })
		res[name] = l
	}
	return res
}

func fmtPub(p map[string][]pubShard) string {
	if len(p) == 0 {
		return "-"
	}
	var parts []string
	for _, name := range sortedNs(p) {
		var sh []string
		for _, s := range p[name] {
			l := "-"
			if s.leader != "" {
				l = strconv.Itoa(srvNum(s.leader))
			}
			sh = append(sh, fmt.Sprintf("%d:%s:%d:%d", s.id, l, s.min, s.max))
		}
		x := "-"
		if len(sh) > 0 {
			x = strings.Join(sh, ",")
		}
		parts = append(parts, fmt.Sprintf("%d~%s", nsNum(name), x))
	}
	return strings.Join(parts, "|")
}

// ---------------------------------------------------------------- running one case on the real code

type seenShard struct {
	ns       string
	min, max uint32
	alive    bool
}

type stRun struct {
	o        *hx.Out
	sr       resources.StatusResource
	script   []string
	pos      int
	calls    []string
	cfg      *model.ClusterConfig // last applied config (nil before the first)
	inDomain bool                 // shard counts in 1..65536, no int64 wrap zone, only protocol-conform D/M ops
	dupNames bool
	seen     map[int64]seenShard
	prevGen  int64
	hist     map[string][][]sh // per namespace: successive distinct non-empty publications
	input    string
	gone     map[string]bool // namespaces that were in the status and left it (all shards deleted)
	everNs   map[string]bool
	zombie   map[int64]bool            // shard ids that came back after their deletion
	meta     metadata.Provider         // the store behind sr (shared with the coordinators of restart ops)
	masked   bool                      // coord kind: observable without ensembles / status / term / leader
	dead     bool                      // a restart did not come back: the case cannot continue
	pubMsgs  []*proto.ShardAssignments // what computeNewAssignments produced after each step
	pubOK    []bool                    // whether the history was still inside the proved domain at that step
}

// rig is the real server-side dispatcher the published assignments are pushed through (nil = leg disabled).
var rig *dispatcherRig

func (r *stRun) supplier(servers []model.Server) func(*model.NamespaceConfig, *model.ClusterStatus) ([]model.Server, error) {
	return func(nc *model.NamespaceConfig, cs *model.ClusterStatus) ([]model.Server, error) {
		r.calls = append(r.calls, fmt.Sprintf("%d/%d/%d/%d", nsNum(nc.Name), cs.ServerIdx, cs.ShardIdGenerator, len(cs.Namespaces)))
		e := "S"
		if r.pos < len(r.script) {
			e = r.script[r.pos]
		}
		r.pos++
		switch e[0] {
		case 'F':
			return nil, errors.New("scripted ensemble selection failure")
		case 'E':
			var res []model.Server
			for _, k := range splitInts(e[1:]) {
				res = append(res, srv(k))
			}
			return res, nil
		default: // 'S': round robin from ServerIdx over the servers of the config being applied
			n := uint32(len(servers))
			if n == 0 || nc.ReplicationFactor > n {
				return nil, errors.New("not enough servers")
			}
			res := make([]model.Server, 0, nc.ReplicationFactor)
			for i := uint32(0); i < nc.ReplicationFactor; i++ {
				res = append(res, servers[(cs.ServerIdx+i)%n])
			}
			return res, nil
		}
	}
}

func (r *stRun) apply(op stOp) (res string) {
	cfg := &model.ClusterConfig{}
	for _, n := range op.ns {
		cfg.Namespaces = append(cfg.Namespaces, model.NamespaceConfig{Name: nsName(n.name), InitialShardCount: n.count, ReplicationFactor: n.rf})
	}
	for _, k := range op.servers {
		cfg.Servers = append(cfg.Servers, srv(k))
	}
	r.calls = nil
	var newStatus *model.ClusterStatus
	var toAdd map[int64]string
	var toDel []int64
	panicked := false
	func() {
		defer func() {
			if x := recover(); x != nil {
				panicked = true
			}
		}()
		newStatus, toAdd, toDel = utils.ApplyClusterChanges(cfg, r.sr.Load(), r.supplier(cfg.Servers))
	}()
	calls := "-"
	if len(r.calls) > 0 {
		calls = strings.Join(r.calls, ",")
	}
	if panicked {
		// the coordinator crashes inside ConfigChanged / NewCoordinator: nothing is stored
		if r.masked {
			return "panic"
		}
		return "panic{calls:" + calls + "}"
	}
	r.sr.Update(newStatus)
	r.cfg = cfg
	var adds []string
	addIds := make([]int64, 0, len(toAdd))
	for id := range toAdd {
		addIds = append(addIds, id)
	}
	sort.Slice(addIds, func(i, j int) bool { return addIds[i] < addIds[j] })
	for _, id := range addIds {
		adds = append(adds, fmt.Sprintf("%d=%d", id, nsNum(toAdd[id])))
	}
	sort.Slice(toDel, func(i, j int) bool { return toDel[i] < toDel[j] })
	dels := make([]string, len(toDel))
	for i, id := range toDel {
		dels[i] = strconv.FormatInt(id, 10)
	}
	j := func(l []string) string {
		if len(l) == 0 {
			return "-"
		}
		return strings.Join(l, ",")
	}
	// spec: what the coordinator is told to start / delete is what the status holds
	if r.inDomain && !r.dupNames {
		st := r.sr.Load()
		for _, id := range addIds {
			if _, ok := st.Namespaces[toAdd[id]].Shards[id]; !ok {
				r.o.Violation("apply:shard-to-add-not-in-status", fmt.Sprintf("shard %d of %s in shardsToAdd but not stored; case: %.400s", id, toAdd[id], r.input))
			}
		}
		for _, id := range toDel {
			found := false
			for _, ns := range st.Namespaces {
				if m, ok := ns.Shards[id]; ok && m.Status == model.ShardStatusDeleting {
					found = true
				}
			}
			if !found {
				r.o.Violation("apply:shard-to-delete-not-deleting", fmt.Sprintf("shard %d in shardsToDelete but not Deleting in the status; case: %.400s", id, r.input))
			}
		}
	}
	if r.masked {
		return "ok{add:" + j(adds) + "}{del:" + j(dels) + "}"
	}
	return "ok{add:" + j(adds) + "}{del:" + j(dels) + "}{calls:" + calls + "}"
}

func (r *stRun) step(op stOp) string {
	head := ""
	switch op.kind {
	case 'A':
		head = r.apply(op)
	case 'X': // replay of a linearized ConfigChanged history: the attempt whose Swap succeeded, as an atomic apply
		if head = r.apply(op); head != "panic" {
			head = "changed"
		}
	case 'C': // a lost compare-and-set attempt stores nothing
		head = "lost"
	case 'R':
		head = r.restart(op)
		if r.dead {
			return head
		}
	case 'D':
		r.sr.DeleteShardMetadata(nsName(op.name), op.id)
	case 'M':
		md := model.ShardMetadata{Status: model.ShardStatus(op.st), Term: op.term,
			Int32HashRange: model.Int32HashRange{Min: op.min, Max: op.max}, Ensemble: []model.Server{}}
		if op.leader >= 0 {
			l := srv(op.leader)
			md.Leader = &l
		}
		for _, k := range op.ens {
			md.Ensemble = append(md.Ensemble, srv(k))
		}
		r.sr.UpdateShardMetadata(nsName(op.name), op.id, md)
	}
	st := r.sr.Load()
	msg := coordinator.VerifComputeAssignments(r.sr)
	pub := pubOf(msg)
	r.pubMsgs = append(r.pubMsgs, msg)
	r.pubOK = append(r.pubOK, r.inDomain)
	r.verdicts(op, st, pub)
	if r.masked {
		return head + "{" + fmtStatusMasked(st) + "}{pub:" + fmtPubMasked(pub) + "}"
	}
	return head + "{" + fmtStatus(st) + "}{pub:" + fmtPub(pub) + "}"
}

func livePartition(ns model.NamespaceStatus) (live []sh, total int) {
	for id, m := range ns.Shards {
		total++
		if m.Status != model.ShardStatusDeleting {
			live = append(live, sh{id, m.Int32HashRange.Min, m.Int32HashRange.Max})
		}
	}
	sort.Slice(live, func(i, j int) bool {
		if live[i].min != live[j].min {
			return live[i].min < live[j].min
		}
		return live[i].id < live[j].id
	})
	return live, total
}

// verdicts evaluates the C18 specification on the implementation's state after one step.
func (r *stRun) verdicts(op stOp, st *model.ClusterStatus, pub map[string][]pubShard) {
	o := r.o
	// published == the non-deleting shards of the status, namespace by namespace (independent of the domain)
	for name, ns := range st.Namespaces {
		live, _ := livePartition(ns)
		sort.Slice(live, func(i, j int) bool { return live[i].id < live[j].id })
		p, ok := pub[name]
		same := ok && len(p) == len(live)
		for i := 0; same && i < len(p); i++ {
			same = p[i].id == live[i].id && p[i].min == live[i].min && p[i].max == live[i].max
		}
		if !same {
			o.Violation("status:published-differs-from-live-shards", fmt.Sprintf("namespace %s after %s: published %v, non-deleting shards %s; case: %.400s", name, op, p, fmtShards(live), r.input))
		}
	}
	if len(pub) != len(st.Namespaces) {
		o.Violation("status:published-differs-from-live-shards", fmt.Sprintf("published namespaces %d, status namespaces %d after %s; case: %.400s", len(pub), len(st.Namespaces), op, r.input))
	}
	if !r.inDomain {
		o.Count("status:step-outside-proved-domain")
		return
	}
	o.Count("status:step-in-domain")
	// unique ids over the whole status, all below the generator, generator monotone, ids never reused
	ids := map[int64]string{}
	for name, ns := range st.Namespaces {
		for id, m := range ns.Shards {
			if other, dup := ids[id]; dup {
				o.Violation("status:duplicate-shard-id", fmt.Sprintf("shard id %d in %s and %s after %s; case: %.400s", id, other, name, op, r.input))
			}
			ids[id] = name
			if id < 0 || id >= st.ShardIdGenerator {
				o.Violation("status:id-reused", fmt.Sprintf("shard id %d not below ShardIdGenerator %d after %s; case: %.400s", id, st.ShardIdGenerator, op, r.input))
			}
			if old, was := r.seen[id]; was {
				if !old.alive && r.gone[old.ns] && old.ns == name {
					// the namespace had left the status (every shard deleted) and is back with a shard of its deleted incarnation
					r.zombie[id] = true
					o.Violation("status:deleted-namespace-resurrected", fmt.Sprintf("namespace %s had been deleted completely and is in the status again with its deleted shard %d (%s) after %s; case: %.400s", name, id, m.Status, op, r.input))
				} else if !old.alive {
					r.zombie[id] = true
					o.Violation("status:id-reused", fmt.Sprintf("shard id %d was deleted and appears again in %s after %s; case: %.400s", id, name, op, r.input))
				} else if old.ns != name || old.min != m.Int32HashRange.Min || old.max != m.Int32HashRange.Max {
					o.Violation("status:shard-range-changed", fmt.Sprintf("shard id %d was %s [%d,%d], now %s [%d,%d] after %s; case: %.400s", id, old.ns, old.min, old.max, name, m.Int32HashRange.Min, m.Int32HashRange.Max, op, r.input))
				}
			}
			r.seen[id] = seenShard{name, m.Int32HashRange.Min, m.Int32HashRange.Max, true}
		}
	}
	for id, s := range r.seen {
		if _, ok := ids[id]; !ok && s.alive {
			s.alive = false
			r.seen[id] = s
		}
	}
	for name := range st.Namespaces {
		r.everNs[name] = true
	}
	for name := range r.everNs {
		if _, ok := st.Namespaces[name]; !ok {
			r.gone[name] = true
		}
	}
	if st.ShardIdGenerator < r.prevGen {
		o.Violation("status:generator-decreased", fmt.Sprintf("ShardIdGenerator went from %d to %d at %s; case: %.400s", r.prevGen, st.ShardIdGenerator, op, r.input))
	}
	r.prevGen = st.ShardIdGenerator
	// every namespace: its non-deleting shards are nothing (namespace going away) or a partition of [0,2^32)
	for _, name := range sortedNs(st.Namespaces) {
		ns := st.Namespaces[name]
		live, total := livePartition(ns)
		configured := false
		if r.cfg != nil {
			for _, nc := range r.cfg.Namespaces {
				configured = configured || nc.Name == name
			}
		}
		switch {
		case total == 0:
			o.Violation("status:namespace-not-partitioned", fmt.Sprintf("namespace %s stored without any shard after %s; case: %.400s", name, op, r.input))
		case len(live) == 0 && configured && r.hasZombie(ns):
			// not O-18(b): the deletion of the previous incarnation had COMPLETED; what blocks the namespace now is a shard
			// that a stale status write brought back and that nothing is deleting
			o.Violation("status:namespace-not-partitioned:readded-after-deletion-completed", fmt.Sprintf("configured namespace %s is published with zero shards: all it holds are %d shards of its completely deleted incarnation, written back into the status; after %s; case: %.400s", name, total, op, r.input))
		case len(live) == 0 && configured:
			// O-18(b): the namespace is in the configuration, but all it has are the Deleting shards of its previous incarnation
			o.Violation("status:namespace-not-partitioned:readded-while-deleting", fmt.Sprintf("configured namespace %s is published with zero shards (all %d shards Deleting) after %s; case: %.400s", name, total, op, r.input))
		case len(live) == 0:
			o.Count("status:namespace-being-deleted")
		case !isPartition(live):
			o.Violation("status:namespace-not-partitioned", fmt.Sprintf("namespace %s after %s: non-deleting shards %.300s; case: %.400s", name, op, fmtShards(live), r.input))
		default:
			o.Count("status:namespace-partitioned")
			// remember what clients of this namespace are sent
			byId := append([]sh(nil), live...)
			sort.Slice(byId, func(i, j int) bool { return byId[i].id < byId[j].id })
			h := r.hist[name]
			if len(h) == 0 || fmtShards(h[len(h)-1]) != fmtShards(byId) {
				r.hist[name] = append(h, byId)
			}
		}
	}
}

// runStatus runs one status case.  input = "<idgen0> <sidx0> <script> <ops>".
func runStatus(o *hx.Out, input string, rng *hx.Rng) {
	t := strings.Fields(input)
	g0, _ := strconv.ParseInt(t[0], 10, 64)
	x0, _ := strconv.ParseUint(t[1], 10, 32)
	meta := metadata.NewMetadataProviderMemory()
	r := &stRun{o: o, meta: meta, sr: resources.NewStatusResource(meta), inDomain: true,
		seen: map[int64]seenShard{}, hist: map[string][][]sh{}, input: input, prevGen: g0,
		gone: map[string]bool{}, everNs: map[string]bool{}, zombie: map[int64]bool{}}
	if t[2] != "-" {
		r.script = strings.Split(t[2], ",")
	}
	r.sr.Update(&model.ClusterStatus{Namespaces: map[string]model.NamespaceStatus{}, ShardIdGenerator: g0, ServerIdx: uint32(x0)})
	if g0 < 0 || g0 > math.MaxInt64/2 {
		r.inDomain = false
	}
	var results []string
	nontrivial := false
	for _, s := range strings.Split(t[3], ";") {
		op := parseStOp(s)
		r.classify(op)
		results = append(results, r.step(op))
		o.Count("status:op-" + string(op.kind))
		if op.kind != 'A' {
			nontrivial = true
		}
	}
	key := ""
	if nontrivial || len(results) > 1 {
		key = input
	}
	o.Case("status", input, strings.Join(results, ";"), key)
	if rig != nil {
		runDispatch(o, rig, r.pubMsgs, r.pubOK, input)
	}
	// the clients of every namespace: feed the successive publications to the real client shard map
	for _, name := range sortedNs(r.hist) {
		h := r.hist[name]
		runUpdate(o, h, true)
		if len(h) >= 2 && rng != nil {
			// same history, every update in a seeded random order (the Go map iteration order of
			// computeNewAssignments is arbitrary): the result must not depend on it
			var sh2 [][]sh
			for _, u := range h {
				v := append([]sh(nil), u...)
				for i := len(v) - 1; i > 0; i-- {
					j := rng.Intn(i + 1)
					v[i], v[j] = v[j], v[i]
				}
				sh2 = append(sh2, v)
			}
			runUpdate(o, sh2, true)
		}
	}
}

// classify keeps track of whether the history is still inside the domain of the theorems.
func (r *stRun) classify(op stOp) {
	st := r.sr.Load()
	switch op.kind {
	case 'A', 'R', 'C', 'X':
		names := map[int]bool{}
		for _, n := range op.ns {
			if n.count < 1 || n.count > 65536 {
				r.inDomain = false
				r.o.Count("status:config-with-count-outside-1..65536")
			}
			if names[n.name] {
				r.dupNames = true
				r.o.Count("status:config-with-duplicate-namespace")
			}
			names[n.name] = true
		}
		if len(op.servers) == 0 {
			r.o.Count("status:config-without-servers")
		}
	case 'D':
		// protocol: DeleteShardMetadata is only reached for shards marked Deleting (shardController.deleteShard)
		m, ok := st.Namespaces[nsName(op.name)].Shards[op.id]
		if ok && m.Status != model.ShardStatusDeleting {
			r.inDomain = false
			r.o.Count("status:delete-of-live-shard(outside protocol)")
		}
	case 'M':
		// protocol: a shard controller writes back its own metadata: same hash range, never Deleting,
		// and (modelled restriction) not after the status already marks the shard Deleting
		m, ok := st.Namespaces[nsName(op.name)].Shards[op.id]
		_, nsok := st.Namespaces[nsName(op.name)]
		if nsok && (!ok || m.Status == model.ShardStatusDeleting || op.st == int(model.ShardStatusDeleting) ||
			m.Int32HashRange.Min != op.min || m.Int32HashRange.Max != op.max) {
			r.inDomain = false
			r.o.Count("status:metadata-write-outside-protocol")
		}
	}
}

// ---------------------------------------------------------------- generation

func statusCount(r *hx.Rng, tier string) uint32 {
	switch x := r.Intn(100); {
	case x < 20:
		return 1
	case x < 60:
		return uint32(2 + r.Intn(7))
	case x < 80:
		return hx.Pick(r, []uint32{16, 17, 31, 32, 33, 64, 100})
	case x < 86:
		return hx.Pick(r, []uint32{255, 256, 257})
	case x < 88:
		if tier == "thorough" {
			return hx.Pick(r, []uint32{1000, 4096})
		}
		return 1000
	case x < 91:
		return 0
	default:
		return uint32(1 + r.Intn(40))
	}
}

func genStatusCase(r *hx.Rng, tier string) string {
	g0, x0 := int64(0), uint32(0)
	if r.Chance(12) {
		g0 = int64(r.Intn(1000))
	}
	if r.Chance(3) {
		g0 = math.MaxInt64 - int64(r.Intn(6))
	}
	if r.Chance(10) {
		x0 = hx.Pick(r, []uint32{1, 2, 5, 0xFFFFFFFE, 0xFFFFFFFF, uint32(r.U64())})
	}
	failP := hx.Pick(r, []int{0, 0, 5, 10, 30})
	var script []string
	for i := 0; i < 60; i++ {
		switch x := r.Intn(100); {
		case x < failP:
			script = append(script, "F")
		case x < failP+10:
			var e []int
			for k := r.Intn(4); k >= 0; k-- {
				e = append(e, 1+r.Intn(6))
			}
			script = append(script, "E"+joinInts(e))
		default:
			script = append(script, "S")
		}
	}
	// the harness mirrors the status with the real code while generating, to aim D/M ops at existing shards
	sr := resources.NewStatusResource(metadata.NewMetadataProviderMemory())
	sr.Update(&model.ClusterStatus{Namespaces: map[string]model.NamespaceStatus{}, ShardIdGenerator: g0, ServerIdx: x0})
	mirror := &stRun{o: nil, sr: sr, script: script}
	cur := stOp{kind: 'A', servers: []int{1, 2, 3}}
	if r.Chance(20) {
		cur.servers = nil
		for k := r.Intn(6); k > 0; k-- {
			cur.servers = append(cur.servers, 1+r.Intn(6))
		}
	}
	var ops []string
	nOps := 3 + r.Intn(10)
	for len(ops) < nOps {
		st := sr.Load()
		var deleting, live [][2]int64 // (namespace, id)
		for name, ns := range st.Namespaces {
			for id, m := range ns.Shards {
				if m.Status == model.ShardStatusDeleting {
					deleting = append(deleting, [2]int64{int64(nsNum(name)), id})
				} else {
					live = append(live, [2]int64{int64(nsNum(name)), id})
				}
			}
		}
		less := func(l [][2]int64) func(i, j int) bool {
			return func(i, j int) bool { return l[i][1] < l[j][1] }
		}
		sort.Slice(deleting, less(deleting))
		sort.Slice(live, less(live))
		var op stOp
		x := r.Intn(100)
		switch {
		case len(ops) == 0 || x < 50:
			// mutate the configuration
			next := stOp{kind: 'A', servers: append([]int(nil), cur.servers...), ns: append([]nsCfg(nil), cur.ns...)}
			for k := 1 + r.Intn(2); k > 0; k-- {
				switch y := r.Intn(100); {
				case y < 40 || len(next.ns) == 0: // add a namespace (possibly one that is being deleted)
					next.ns = append(next.ns, nsCfg{1 + r.Intn(4), statusCount(r, tier), uint32(1 + r.Intn(3))})
					if !r.Chance(3) { // duplicates only rarely
						seen := map[int]bool{}
						var dedup []nsCfg
						for _, n := range next.ns {
							if !seen[n.name] {
								dedup = append(dedup, n)
							}
							seen[n.name] = true
						}
						next.ns = dedup
					}
				case y < 70: // remove a namespace
					i := r.Intn(len(next.ns))
					next.ns = append(next.ns[:i:i], next.ns[i+1:]...)
				case y < 80: // change the shard count / rf of an existing namespace (ignored by the code)
					i := r.Intn(len(next.ns))
					next.ns[i].count = statusCount(r, tier)
					next.ns[i].rf = uint32(1 + r.Intn(3))
				case y < 90: // add a server
					next.servers = append(next.servers, 1+r.Intn(6))
				default: // remove a server (possibly the last one)
					if len(next.servers) > 0 {
						i := r.Intn(len(next.servers))
						next.servers = append(next.servers[:i:i], next.servers[i+1:]...)
					}
				}
			}
			op, cur = next, next
		case x < 80 && len(deleting) > 0:
			d := deleting[r.Intn(len(deleting))]
			op = stOp{kind: 'D', name: int(d[0]), id: d[1]}
		case x < 83:
			// outside the protocol or a no-op: unknown namespace / unknown shard / a live shard
			op = stOp{kind: 'D', name: 1 + r.Intn(5), id: int64(r.Intn(12))}
		case len(live) > 0:
			l := live[r.Intn(len(live))]
			m := st.Namespaces[nsName(int(l[0]))].Shards[l[1]]
			op = stOp{kind: 'M', name: int(l[0]), id: l[1], st: 1 + r.Intn(2), term: m.Term + 1 + int64(r.Intn(2)),
				leader: -1, ens: srvNums(m.Ensemble), min: m.Int32HashRange.Min, max: m.Int32HashRange.Max}
			if len(op.ens) > 0 && r.Chance(80) {
				op.leader = op.ens[r.Intn(len(op.ens))]
			}
			if r.Chance(3) { // outside the protocol: a different range
				op.max = op.max / 2
			}
		case len(deleting) > 0 && r.Chance(30):
			// outside the modelled protocol: a controller still in an election overwrites the Deleting mark
			d := deleting[r.Intn(len(deleting))]
			m := st.Namespaces[nsName(int(d[0]))].Shards[d[1]]
			op = stOp{kind: 'M', name: int(d[0]), id: d[1], st: 2, term: m.Term + 1, leader: -1, ens: srvNums(m.Ensemble),
				min: m.Int32HashRange.Min, max: m.Int32HashRange.Max}
		default:
			continue
		}
		ops = append(ops, op.String())
		mirror.stepQuiet(op)
	}
	return fmt.Sprintf("%d %d %s %s", g0, x0, strings.Join(script, ","), strings.Join(ops, ";"))
}

// stepQuiet applies an op to the mirror status without recording anything.
func (r *stRun) stepQuiet(op stOp) {
	switch op.kind {
	case 'A':
		cfg := &model.ClusterConfig{}
		for _, n := range op.ns {
			cfg.Namespaces = append(cfg.Namespaces, model.NamespaceConfig{Name: nsName(n.name), InitialShardCount: n.count, ReplicationFactor: n.rf})
		}
		for _, k := range op.servers {
			cfg.Servers = append(cfg.Servers, srv(k))
		}
		func() {
			defer func() { _ = recover() }()
			ns, _, _ := utils.ApplyClusterChanges(cfg, r.sr.Load(), r.supplier(cfg.Servers))
			r.sr.Update(ns)
		}()
	case 'D':
		r.sr.DeleteShardMetadata(nsName(op.name), op.id)
	case 'M':
		md := model.ShardMetadata{Status: model.ShardStatus(op.st), Term: op.term, Int32HashRange: model.Int32HashRange{Min: op.min, Max: op.max}}
		for _, k := range op.ens {
			md.Ensemble = append(md.Ensemble, srv(k))
		}
		r.sr.UpdateShardMetadata(nsName(op.name), op.id, md)
	}
}

// the bound of the partition theorem (65536) and the first count beyond it, thorough tier only (very long lines)
var fixedStatusCasesThorough = []string{
	"0 0 - A1:65536:1|1+2+3;A-|1+2+3;A2:65537:1|1+2+3",
	"7 0 - A1:65535:2|1+2+3;A1:65535:2+2:65536:1|1+2+3",
}

// fixed histories that every run replays first: the O-18 scenarios and the arithmetic boundaries
var fixedStatusCases = []string{
	// O-18(a): the supplier fails for the 2nd of 4 shards / for every shard
	"0 0 S,F,S,S,S,S,S,S A1:4:3|1+2+3;A1:4:3|1+2+3+4;A1:4:3+2:2:1|1+2+3+4",
	"0 0 F,F,S,S,S A1:2:3|1+2;A1:2:3|1+2+3;A1:2:3+2:1:1|1+2+3",
	// O-18(b): namespace removed and added again while its shards are being deleted
	"0 0 - A1:2:1|1+2+3;A-|1+2+3;A1:3:1|1+2+3;D1:0;D1:1;A1:3:1|1+2+3",
	// plain life cycle with deletions completing before the namespace comes back, ids are never reused
	"0 0 - A1:2:1+2:3:2|1+2+3;A2:3:2|1+2+3;D1:0;D1:1;A1:2:1+2:3:2|1+2+3;M1:5:2:0:1:1:0:2147483647",
	// no servers: ServerIdx % 0 with an explicit ensemble (panic), and with the round-robin supplier (refused)
	"0 0 E1+2,S A1:1:2|-;A1:1:2|-;A1:1:2|1+2",
	// shard count 0 (division by zero in GenerateShards), ServerIdx and generator wrap zones
	"0 0 - A1:0:1|1+2+3;A1:1:1|1+2+3",
	"5 4294967295 S,S,S,E1 A1:3:2|1+2+3;A1:3:2+2:1:4294967295|1+2+3",
	"9223372036854775805 0 - A1:5:1|1+2+3;A1:5:1+2:1:1|1+2+3",
	// duplicate namespace names in one configuration (never validated)
	"0 0 - A1:2:1+1:3:1|1+2+3;A1:2:1|1+2+3",
}

func (r *stRun) hasZombie(ns model.NamespaceStatus) bool {
	for id := range ns.Shards {
		if r.zombie[id] {
			return true
		}
	}
	return false
}
