// harness shard, coordinator leg: restarts of the REAL coordinator (coordinator.NewCoordinator) in the middle of a
// status history.  The coordinator runs over the memory metadata provider that holds the status produced by the
// history so far, with the configuration of the restart op and a stub rpc.Provider (nodes healthy, every
// replication RPC blocks until its context is cancelled, so no election and no shard deletion ever completes).
// After start-up the coordinator is closed, the stored status is read back and the history continues.
// The real ensemble selector and the shard controllers run during start-up, so this kind compares ids, ranges,
// Deleting marks, replication factors, ShardIdGenerator and ServerIdx (not ensembles / status / term / leader).
package main

import (
	"context"
	"errors"
	"fmt"
	"io"
	"sort"
	"strings"
	"time"

	"google.golang.org/grpc"
	"google.golang.org/grpc/health/grpc_health_v1"

	"github.com/oxia-db/oxia/coordinator"
	"github.com/oxia-db/oxia/coordinator/metadata"
	"github.com/oxia-db/oxia/coordinator/model"
	"github.com/oxia-db/oxia/coordinator/resources"
	"github.com/oxia-db/oxia/proto"

	"verif/harness/internal/hx"
)

type stubRPC struct{}

func blockOn[T any](ctx context.Context) (*T, error) { <-ctx.Done(); return nil, ctx.Err() }

type stubPush struct {
	grpc.ClientStream
	ctx context.Context
}

func (*stubPush) Send(*proto.ShardAssignments) error { return nil }
func (*stubPush) CloseAndRecv() (*proto.CoordinationShardAssignmentsResponse, error) {
	return &proto.CoordinationShardAssignmentsResponse{}, nil
}
func (s *stubPush) Context() context.Context { return s.ctx }

func (stubRPC) PushShardAssignments(ctx context.Context, _ model.Server) (proto.OxiaCoordination_PushShardAssignmentsClient, error) {
	return &stubPush{ctx: ctx}, nil
}
func (stubRPC) NewTerm(ctx context.Context, _ model.Server, _ *proto.NewTermRequest) (*proto.NewTermResponse, error) {
	return blockOn[proto.NewTermResponse](ctx)
}
func (stubRPC) BecomeLeader(ctx context.Context, _ model.Server, _ *proto.BecomeLeaderRequest) (*proto.BecomeLeaderResponse, error) {
	return blockOn[proto.BecomeLeaderResponse](ctx)
}
func (stubRPC) AddFollower(ctx context.Context, _ model.Server, _ *proto.AddFollowerRequest) (*proto.AddFollowerResponse, error) {
	return blockOn[proto.AddFollowerResponse](ctx)
}
func (stubRPC) GetStatus(ctx context.Context, _ model.Server, _ *proto.GetStatusRequest) (*proto.GetStatusResponse, error) {
	return blockOn[proto.GetStatusResponse](ctx)
}
func (stubRPC) DeleteShard(ctx context.Context, _ model.Server, _ *proto.DeleteShardRequest) (*proto.DeleteShardResponse, error) {
	return blockOn[proto.DeleteShardResponse](ctx)
}
func (stubRPC) ClearPooledConnections(model.Server) {}

type stubHealth struct{}
type stubWatch struct {
	grpc.ClientStream
	ctx   context.Context
	first bool
}

func (w *stubWatch) Recv() (*grpc_health_v1.HealthCheckResponse, error) {
	if !w.first {
		w.first = true
		return &grpc_health_v1.HealthCheckResponse{Status: grpc_health_v1.HealthCheckResponse_SERVING}, nil
	}
	<-w.ctx.Done()
	return nil, w.ctx.Err()
}
func (stubHealth) Check(context.Context, *grpc_health_v1.HealthCheckRequest, ...grpc.CallOption) (*grpc_health_v1.HealthCheckResponse, error) {
	return &grpc_health_v1.HealthCheckResponse{Status: grpc_health_v1.HealthCheckResponse_SERVING}, nil
}
func (stubHealth) List(context.Context, *grpc_health_v1.HealthListRequest, ...grpc.CallOption) (*grpc_health_v1.HealthListResponse, error) {
	return nil, errors.New("not used")
}
func (stubHealth) Watch(ctx context.Context, _ *grpc_health_v1.HealthCheckRequest, _ ...grpc.CallOption) (grpc.ServerStreamingClient[grpc_health_v1.HealthCheckResponse], error) {
	return &stubWatch{ctx: ctx}, nil
}

type nopCloser struct{}

func (nopCloser) Close() error { return nil }
func (stubRPC) GetHealthClient(model.Server) (grpc_health_v1.HealthClient, io.Closer, error) {
	return stubHealth{}, nopCloser{}, nil
}

const coordStartTimeout = 20 * time.Second

// restart runs the real NewCoordinator on the stored status with the op's configuration, closes it again and
// reloads the status resource from the store.
func (r *stRun) restart(op stOp) string {
	cfg := model.ClusterConfig{}
	for _, n := range op.ns {
		cfg.Namespaces = append(cfg.Namespaces, model.NamespaceConfig{Name: nsName(n.name), InitialShardCount: n.count, ReplicationFactor: n.rf})
	}
	for _, k := range op.servers {
		cfg.Servers = append(cfg.Servers, srv(k))
	}
	type started struct {
		c   coordinator.Coordinator
		err error
	}
	ch := make(chan started, 1)
	go func() {
		defer func() {
			if x := recover(); x != nil {
				ch <- started{nil, fmt.Errorf("panic: %v", x)}
			}
		}()
		c, err := coordinator.NewCoordinator(r.meta, func() (model.ClusterConfig, error) { return cfg, nil }, nil, stubRPC{})
		ch <- started{c, err}
	}()
	var s started
	select {
	case s = <-ch:
	case <-time.After(coordStartTimeout):
		r.o.Violation("coord:start-up-did-not-complete", fmt.Sprintf("NewCoordinator did not return within %v at %s; case: %.400s", coordStartTimeout, op, r.input))
		r.dead = true
		return "timeout"
	}
	if s.err != nil {
		r.dead = true
		return "error"
	}
	closed := make(chan struct{})
	go func() { _ = s.c.Close(); close(closed) }()
	select {
	case <-closed:
	case <-time.After(coordStartTimeout):
		r.o.Violation("coord:close-did-not-complete", fmt.Sprintf("Coordinator.Close did not return at %s; case: %.400s", op, r.input))
		r.dead = true
		return "timeout"
	}
	r.sr = resources.NewStatusResource(r.meta)
	r.cfg = &cfg
	return "restart"
}

func fmtStatusMasked(cs *model.ClusterStatus) string {
	var sb strings.Builder
	fmt.Fprintf(&sb, "%d,%d", cs.ShardIdGenerator, cs.ServerIdx)
	if len(cs.Namespaces) == 0 {
		sb.WriteString("|-")
	}
	for _, name := range sortedNs(cs.Namespaces) {
		ns := cs.Namespaces[name]
		fmt.Fprintf(&sb, "|%d~%d~", nsNum(name), ns.ReplicationFactor)
		if len(ns.Shards) == 0 {
			sb.WriteString("-")
		}
		for i, id := range sortedIds(ns.Shards) {
			m := ns.Shards[id]
			if i > 0 {
				sb.WriteByte(',')
			}
			d := "L"
			if m.Status == model.ShardStatusDeleting {
				d = "D"
			}
			fmt.Fprintf(&sb, "%d:%s:%d:%d", id, d, m.Int32HashRange.Min, m.Int32HashRange.Max)
		}
	}
	return sb.String()
}

func fmtPubMasked(p map[string][]pubShard) string {
	if len(p) == 0 {
		return "-"
	}
	var parts []string
	for _, name := range sortedNs(p) {
		var sh []string
		for _, s := range p[name] {
			sh = append(sh, fmt.Sprintf("%d:%d:%d", s.id, s.min, s.max))
		}
		x := "-"
		if len(sh) > 0 {
			x = strings.Join(sh, ",")
		}
		parts = append(parts, fmt.Sprintf("%d~%s", nsNum(name), x))
	}
	return strings.Join(parts, "|")
}

// safeMeta: the memory provider panics on a version conflict.  The only writers that run into one here are shard
// controllers of a coordinator incarnation that has been closed (a controller that Close does not reach keeps
// running); a versioned store rejects their writes.  The write is dropped and reported as done: an error would
// make the status resource log through its nil logger (NewStatusResource never sets it) and crash the process.
type safeMeta struct{ metadata.Provider }

func (m safeMeta) Store(cs *model.ClusterStatus, v metadata.Version) (nv metadata.Version, err error) {
	defer func() {
		if x := recover(); x != nil {
			nv, err = v, nil
		}
	}()
	return m.Provider.Store(cs, v)
}

// fixedStatus is a read-only status resource over one snapshot.
type fixedStatus struct {
	resources.StatusResource
	st *model.ClusterStatus
}

func (f fixedStatus) Load() *model.ClusterStatus { return f.st }

func newCoordRun(o *hx.Out, g0 int64, x0 uint32) *stRun {
	meta := safeMeta{metadata.NewMetadataProviderMemory()}
	r := &stRun{o: o, meta: meta, sr: resources.NewStatusResource(meta), inDomain: true, masked: true,
		seen: map[int64]seenShard{}, hist: map[string][][]sh{}, prevGen: g0,
		gone: map[string]bool{}, everNs: map[string]bool{}, zombie: map[int64]bool{}}
	r.sr.Update(&model.ClusterStatus{Namespaces: map[string]model.NamespaceStatus{}, ShardIdGenerator: g0, ServerIdx: x0})
	return r
}

func (r *stRun) finishCoord(ops, results []string, g0 int64, x0 uint32) {
	input := fmt.Sprintf("%d %d - %s", g0, x0, strings.Join(ops, ";"))
	r.o.Case("coord", input, strings.Join(results, ";"), input)
	for _, name := range sortedNs(r.hist) {
		runUpdate(r.o, r.hist[name], true)
	}
}

// runCoord replays a coord case line: "<idgen0> <sidx0> - <ops>".
func runCoord(o *hx.Out, input string) {
	t := strings.Fields(input)
	var g0 int64
	var x0 uint32
	fmt.Sscan(t[0], &g0)
	fmt.Sscan(t[1], &x0)
	r := newCoordRun(o, g0, x0)
	r.input = input
	var ops, results []string
	for _, s := range strings.Split(t[3], ";") {
		if r.dead {
			break
		}
		op := parseStOp(s)
		r.classify(op)
		results = append(results, r.step(op))
		ops = append(ops, s)
		o.Count("coord:op-" + string(op.kind))
	}
	r.finishCoord(ops, results, g0, x0)
}

// genCoord generates a history op by op against the running implementation (D ops aim at shards that are
// Deleting right now) and runs it at the same time.  Configurations keep at least three distinct servers and
// rf <= 3, shard counts in 1..65536: inside the proved domain, and the real selector cannot fail.
func genCoord(o *hx.Out, rng *hx.Rng) {
	g0 := int64(0)
	if rng.Chance(30) {
		g0 = int64(rng.Intn(50))
	}
	x0 := uint32(rng.Intn(3))
	r := newCoordRun(o, g0, x0)
	cur := stOp{kind: 'A', servers: []int{1, 2, 3}}
	mutate := func() stOp {
		next := stOp{servers: append([]int(nil), cur.servers...), ns: append([]nsCfg(nil), cur.ns...)}
		for k := 1 + rng.Intn(2); k > 0; k-- {
			switch y := rng.Intn(100); {
			case y < 40 || len(next.ns) == 0:
				name := 1 + rng.Intn(4)
				dup := false
				for _, n := range next.ns {
					dup = dup || n.name == name
				}
				if !dup {
					next.ns = append(next.ns, nsCfg{name, hx.Pick(rng, []uint32{1, 1, 2, 2, 3, 4, 5, 8, 16}), uint32(1 + rng.Intn(3))})
				}
			case y < 80:
				if rng.Chance(40) { // everything removed
					next.ns = nil
				} else {
					i := rng.Intn(len(next.ns))
					next.ns = append(next.ns[:i:i], next.ns[i+1:]...)
				}
			case y < 90:
				if len(next.servers) < 5 {
					next.servers = append(next.servers, len(next.servers)+1)
				}
			default:
				if len(next.servers) > 3 {
					next.servers = next.servers[:len(next.servers)-1]
				}
			}
		}
		return next
	}
	var ops, results []string
	nOps := 4 + rng.Intn(9)
	for len(ops) < nOps && !r.dead {
		st := r.sr.Load()
		var deleting [][2]int64
		for name, ns := range st.Namespaces {
			for id, m := range ns.Shards {
				if m.Status == model.ShardStatusDeleting {
					deleting = append(deleting, [2]int64{int64(nsNum(name)), id})
				}
			}
		}
		sort.Slice(deleting, func(i, j int) bool { return deleting[i][1] < deleting[j][1] })
		var op stOp
		x := rng.Intn(100)
		switch {
		case len(deleting) > 0 && x < 55:
			d := deleting[rng.Intn(len(deleting))]
			op = stOp{kind: 'D', name: int(d[0]), id: d[1]}
		case x < 75 && len(ops) > 0:
			// restart; the configuration found at start-up is the current one or a changed one
			op = cur
			if rng.Chance(50) {
				op = mutate()
			}
			op.kind = 'R'
			cur = op
		default:
			op = mutate()
			op.kind = 'A'
			cur = op
		}
		s := op.String()
		r.input = fmt.Sprintf("%d %d - %s", g0, x0, strings.Join(append(ops, s), ";"))
		r.classify(op)
		results = append(results, r.step(op))
		ops = append(ops, s)
		o.Count("coord:op-" + string(op.kind))
		if op.kind == 'R' && len(st.Namespaces) == 0 {
			o.Count("coord:restart-with-no-namespace-stored")
		}
	}
	r.finishCoord(ops, results, g0, x0)
}

// fixed coord histories: every namespace removed and fully deleted, then a restart that adds a namespace /
// a restart and a later config change; restarts in the middle of a deletion; restarts that change nothing
var fixedCoordCases = []string{
	"0 0 - A1:2:1|1+2+3;A-|1+2+3;D1:0;D1:1;R2:2:1|1+2+3;A2:2:1+3:1:1|1+2+3",
	"0 0 - A1:2:1|1+2+3;A-|1+2+3;D1:0;D1:1;R-|1+2+3;A2:3:2|1+2+3",
	"0 0 - R1:3:2|1+2+3;R-|1+2+3;D1:0;D1:1;D1:2;R-|1+2+3;R1:1:1|1+2+3",
	"0 0 - A1:2:1+2:3:2|1+2+3;R2:3:2|1+2+3;D1:0;R2:3:2|1+2+3+4;D1:1;R1:1:1+2:3:2|1+2+3+4",
	"5 2 - R1:3:1|1+2+3;R1:3:1|1+2+3;R-|1+2+3",
}
