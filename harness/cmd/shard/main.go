// harness shard: drives common/sharding.GenerateShards and the client's shard map
// (oxia/internal shardManagerImpl.update / Get through the verif export) and writes
// inputs + canonical observables for the Coq model (Oxia.Shard.Model) to compare.
package main

import (
	"fmt"
	"log/slog"
	"sort"
	"strconv"
	"strings"

	"github.com/oxia-db/oxia/common/sharding"
	"github.com/oxia-db/oxia/oxia"

	"verif/harness/internal/hx"
)

type sh struct {
	id       int64
	min, max uint32
}

func fmtShards(l []sh) string {
	if len(l) == 0 {
		return "-"
	}
	var sb strings.Builder
	for i, s := range l {
		if i > 0 {
			sb.WriteByte(',')
		}
		fmt.Fprintf(&sb, "%d:%d:%d", s.id, s.min, s.max)
	}
	return sb.String()
}

func parseShards(s string) []sh {
	if s == "-" {
		return nil
	}
	var res []sh
	for _, p := range strings.Split(s, ",") {
		f := strings.Split(p, ":")
		id, _ := strconv.ParseInt(f[0], 10, 64)
		mn, _ := strconv.ParseUint(f[1], 10, 32)
		mx, _ := strconv.ParseUint(f[2], 10, 32)
		res = append(res, sh{id, uint32(mn), uint32(mx)})
	}
	return res
}

func generate(base int64, n uint32) (res []sh, panicked bool) {
	defer func() {
		if r := recover(); r != nil {
			panicked = true
		}
	}()
	for _, s := range sharding.GenerateShards(base, n) {
		res = append(res, sh{s.Id, s.Min, s.Max})
	}
	return res, false
}

// isPartition is the specification predicate evaluated directly on the implementation's output.
func isPartition(l []sh) bool {
	next := uint64(0)
	for _, s := range l {
		if uint64(s.min) != next || s.min > s.max {
			return false
		}
		next = uint64(s.max) + 1
	}
	return next == 1<<32
}

func toClient(l []sh) []oxia.VerifShard {
	res := make([]oxia.VerifShard, len(l))
	for i, s := range l {
		res[i] = oxia.VerifShard{Id: s.id, Leader: "x", HashRange: oxia.VerifHashRange{MinInclusive: s.min, MaxInclusive: s.max}}
	}
	return res
}

func fromClient(m *oxia.VerifShardMap) []sh {
	var res []sh
	for _, s := range m.Shards() {
		res = append(res, sh{s.Id, s.HashRange.MinInclusive, s.HashRange.MaxInclusive})
	}
	sort.Slice(res, func(i, j int) bool { return res[i].id < res[j].id })
	return res
}

func idsSorted(ids []int64) string {
	sort.Slice(ids, func(i, j int) bool { return ids[i] < ids[j] })
	if len(ids) == 0 {
		return "-"
	}
	s := make([]string, len(ids))
	for i, x := range ids {
		s[i] = strconv.FormatInt(x, 10)
	}
	return strings.Join(s, ",")
}

func runGen(o *hx.Out, base int64, n uint32) []sh {
	l, p := generate(base, n)
	res := "panic"
	if !p {
		res = fmtShards(l)
	}
	nt := ""
	if n >= 2 {
		nt = fmt.Sprintf("n=%d", n)
	}
	o.Case("gen", fmt.Sprintf("%d %d", base, n), res, nt)
	switch {
	case n == 0:
		o.Count("gen:n=0(panic expected)")
	case n <= 65536:
		o.Count("gen:in-domain")
		ok := !p && len(l) == int(n) && isPartition(l)
		for i, s := range l {
			if s.id != base+int64(i) {
				ok = false
			}
		}
		if !ok {
			o.Violation("gen:not-a-partition", fmt.Sprintf("GenerateShards(%d,%d) = %.300s", base, n, res))
		}
	default:
		o.Count("gen:above-proved-bound")
	}
	return l
}

func runRoute(o *hx.Out, l []sh, h uint32, wellFormed bool) {
	m := oxia.NewVerifShardMap()
	m.Update(toClient(l))
	match := m.Matching(h)
	id, panicked := m.Route(h)
	res := idsSorted(match)
	o.Case("route", fmt.Sprintf("%d %s", h, fmtShards(fromClient(m))), res, fmt.Sprintf("%d/%d", h, len(l)))
	if wellFormed {
		if len(match) != 1 || panicked || id != match[0] {
			o.Violation("route:not-exactly-one", fmt.Sprintf("hash %d matches %s (Get panicked=%v) in %.300s", h, res, panicked, fmtShards(l)))
		}
	}
}

func runUpdate(o *hx.Out, ups [][]sh, expectPartition bool) {
	m := oxia.NewVerifShardMap()
	var parts []string
	for _, u := range ups {
		// hypothesis of c18_client_update_preserves_partition: an id the client already knows keeps its range
		cur := map[int64]sh{}
		for _, s := range fromClient(m) {
			cur[s.id] = s
		}
		for _, x := range u {
			if s, ok := cur[x.id]; ok && s != x {
				expectPartition = false
			}
		}
		m.Update(toClient(u))
		parts = append(parts, fmtShards(u))
		if expectPartition {
			// spec: after an update that is a partition the client's map is exactly that partition,
			// whatever (disjoint) map it held before
			want := append([]sh(nil), u...)
			sort.Slice(want, func(i, j int) bool { return want[i].id < want[j].id })
			byMin := append([]sh(nil), want...)
			sort.Slice(byMin, func(i, j int) bool { return byMin[i].min < byMin[j].min })
			if isPartition(byMin) {
				o.Count("update:partition-applied")
				if got := fromClient(m); fmtShards(got) != fmtShards(want) {
					o.Violation("client:map-not-partition-after-update", fmt.Sprintf("updates %.300s => client map %.300s", strings.Join(parts, ";"), fmtShards(got)))
				}
			} else {
				expectPartition = false
			}
		}
	}
	// the model's client map is an association list (quadratic): very large maps get the spec verdict only
	for _, u := range ups {
		if len(u) > 1100 {
			o.Count("update:too-large-for-model(spec verdict only)")
			return
		}
	}
	res := fmtShards(fromClient(m))
	o.Case("update", "- "+strings.Join(parts, ";"), res, strings.Join(parts, ";"))
}

// cutPartition builds a partition of [0,2^32) from arbitrary cut points (not only the ones GenerateShards
// produces): single-hash shards and cuts that move by one between successive assignments are the cases
// in which the client's overlap rule has to be exact.
func cutPartition(base int64, cuts []uint32) []sh {
	sort.Slice(cuts, func(i, j int) bool { return cuts[i] < cuts[j] })
	var res []sh
	lower := uint32(0)
	for _, c := range cuts { // c = last hash of a shard
		if c < lower || c == 0xFFFFFFFF {
			continue
		}
		res = append(res, sh{base + int64(len(res)), lower, c})
		lower = c + 1
	}
	return append(res, sh{base + int64(len(res)), lower, 0xFFFFFFFF})
}

func genCutUpdates(o *hx.Out, r *hx.Rng) {
	var ups [][]sh
	base := int64(r.Intn(50))
	var cuts []uint32
	for k := r.Intn(5); k >= 0; k-- {
		cuts = append(cuts, hx.Pick(r, []uint32{0, 1, 2, 99, 100, 101, 0x7FFFFFFF, 0x80000000, 0xFFFFFFFD, 0xFFFFFFFE, uint32(r.U64())}))
	}
	for n := 2 + r.Intn(3); n > 0; n-- {
		p := cutPartition(base, append([]uint32(nil), cuts...))
		ups = append(ups, p)
		if r.Chance(25) {
			continue // re-announce the same assignment (same ids, same ranges)
		}
		base += int64(len(p))
		// the next generation: every cut moved by -1/0/+1, sometimes a cut added or dropped
		var next []uint32
		for _, c := range cuts {
			if r.Chance(15) {
				continue
			}
			next = append(next, c+uint32(r.Intn(3))-1)
		}
		if r.Chance(40) {
			next = append(next, uint32(r.U64()))
		}
		cuts = next
	}
	o.Count("update:arbitrary-cut-points")
	runUpdate(o, ups, true)
}

func interestingN(r *hx.Rng) uint32 {
	switch r.Intn(10) {
	case 0, 1, 2, 3:
		return uint32(1 + r.Intn(300))
	case 4, 5:
		k := uint(r.Intn(17))
		return uint32(int(1<<k) + r.Intn(3) - 1)
	case 6:
		return uint32(hx.Pick(r, []int{65535, 65536, 65537, 0, 1, 2, 3}))
	case 7:
		return uint32(r.Intn(70000))
	default:
		return uint32(1 + r.Intn(4000))
	}
}

func main() {
	f := hx.ParseFlags()
	o := hx.NewOut(f.OutDir)
	defer o.Close()
	r := hx.NewRng(f.Seed)

	rig = newDispatcherRig()
	defer rig.close()

	replay := hx.CorpusLines(f.Corpus)
	if f.Replay != "" {
		replay = hx.ReadLines(f.Replay)
	}
	for _, line := range replay {
		t := strings.Fields(line)
		switch t[0] {
		case "gen":
			b, _ := strconv.ParseInt(t[2], 10, 64)
			n, _ := strconv.ParseUint(t[3], 10, 32)
			runGen(o, b, uint32(n))
		case "route":
			h, _ := strconv.ParseUint(t[2], 10, 32)
			runRoute(o, parseShards(t[3]), uint32(h), false)
		case "update":
			var ups [][]sh
			for _, p := range strings.Split(t[3], ";") {
				ups = append(ups, parseShards(p))
			}
			runUpdate(o, ups, true)
		case "status":
			runStatus(o, strings.Join(t[2:], " "), nil)
		case "coord":
			runCoord(o, strings.Join(t[2:], " "))
		case "disp":
			runDisp(o, t[2])
		}
	}
	if f.Replay != "" {
		return
	}

	// fixed boundary cases first, then seeded ones
	for _, n := range []uint32{0, 1, 2, 3, 4, 5, 7, 16, 255, 256, 257, 1000, 4096, 65535, 65536, 65537} {
		runGen(o, 0, n)
	}
	for _, c := range fixedStatusCases {
		runStatus(o, c, r.Fork())
	}
	if f.Tier == "thorough" {
		for _, c := range fixedStatusCasesThorough {
			runStatus(o, c, r.Fork())
		}
	}
	// the assignment dispatcher under scheduled interleavings of registrations, pushes, Sends and disconnects
	for _, c := range fixedDispCases {
		runDisp(o, c)
	}
	rd := r.Fork()
	for i := 0; i < f.N; i++ {
		genDisp(o, rd)
	}
	// readers of the client shard map racing with the application of an update, forced interleaving
	for _, l := range [][2]uint32{{1, 2}, {2, 3}, {3, 1}, {4, 3}, {2, 2}} {
		runForcedReaders(o, l[0], l[1])
	}
	runStressReaders(o, r.Fork(), f.N/2)
	// the real client shard manager on the real dispatcher, statuses with leaders absent / present / changing
	rt := r.Fork()
	for i := 0; i < f.N/3; i++ {
		genStream(o, rt)
	}
	// ConfigChanged of a live coordinator with shard deletions completing inside its compare-and-set window
	slog.SetDefault(slog.New(hookHandler{}))
	rx := r.Fork()
	runCas(o, rx, 1, 0, 1, true)
	runCas(o, rx, 3, 1, 2, true)
	runCas(o, rx, 3, 0, 3, true)
	runCas(o, rx, 2, 0, 1, true)
	for i := 0; i < f.N/6; i++ {
		genCas(o, rx)
	}
	// restarts of the real coordinator inside status histories
	for _, c := range fixedCoordCases {
		runCoord(o, c)
	}
	rc := r.Fork()
	for i := 0; i < f.N/2; i++ {
		genCoord(o, rc)
	}
	rs := r.Fork()
	for i := 0; i < 3*f.N; i++ {
		runStatus(o, genStatusCase(rs, f.Tier), rs)
		genCutUpdates(o, rs)
	}
	for i := 0; i < f.N; i++ {
		base := int64(r.Intn(1000))
		if r.Chance(10) {
			base = int64(r.U64() >> 2)
		}
		n := interestingN(r)
		if n > 5000 && (f.Tier != "thorough" || r.Chance(80)) { // very long lines: quick tier has the fixed ones only
			n = uint32(1 + r.Intn(5000))
		}
		l := runGen(o, base, n)
		if n == 0 || n > 65536 || len(l) == 0 {
			continue
		}
		// routing at and around every kind of boundary
		for k := 0; k < 6 && n <= 600; k++ {
			s := l[r.Intn(len(l))]
			h := hx.Pick(r, []uint32{s.min, s.max, s.min - 1, s.max + 1, 0, 0xFFFFFFFF, uint32(r.U64())})
			runRoute(o, l, h, true)
		}
		// client map updates: a partition replaced by another one with fresh ids (namespace re-created,
		// different shard count), or re-announced with the same ids
		if n <= 64 {
			n2 := uint32(1 + r.Intn(64))
			base2 := base + int64(n)
			if r.Chance(30) {
				base2 = base
				n2 = n
			}
			l2, _ := generate(base2, n2)
			ups := [][]sh{l, l2}
			if r.Chance(30) {
				l3, _ := generate(base2+int64(n2), uint32(1+r.Intn(8)))
				ups = append(ups, l3)
			}
			runUpdate(o, ups, true)
		}
	}
}
