// harness shard, concurrent readers of the client shard map: Get / GetAll racing with the application of a received
// assignment list (shardManagerImpl.update).  Every answer must be a shard of the partition before the update or of
// the one after it that covers the probe's hash; Get must not panic.
//
//	forced schedule: a reader is parked under the read lock (the key-to-hash function belongs to the harness and is
//	  called inside Get's critical section), the writer queues behind it, probes queue behind the writer, release;
//	stress: reader goroutines in a tight loop while the stream leg applies its updates.
package main

import (
	"fmt"
	"runtime"
	"sort"
	"strconv"
	"strings"
	"sync"
	"sync/atomic"
	"time"

	"github.com/oxia-db/oxia/common/sharding"
	"github.com/oxia-db/oxia/oxia"

	"verif/harness/internal/hx"
)

// covering returns the ids of the shards of the lists that contain h.
func covering(h uint32, lists ...[]sh) map[int64]bool {
	res := map[int64]bool{}
	for _, l := range lists {
		for _, s := range l {
			if s.min <= h && h <= s.max {
				res[s.id] = true
			}
		}
	}
	return res
}

func probeHashes(lists ...[]sh) []uint32 {
	seen := map[uint32]bool{}
	var res []uint32
	for _, l := range lists {
		for _, s := range l {
			for _, h := range []uint32{s.min, s.max, s.min + (s.max-s.min)/2} {
				if !seen[h] {
					seen[h] = true
					res = append(res, h)
				}
			}
		}
	}
	sort.Slice(res, func(i, j int) bool { return res[i] < res[j] })
	return res
}

// blockedReaders counts the goroutines that wait for the shard manager's read lock inside Get.
func blockedReaders() int {
	buf := make([]byte, 1<<20)
	for {
		n := runtime.Stack(buf, true)
		if n < len(buf) {
			buf = buf[:n]
			break
		}
		buf = make([]byte, 2*len(buf))
	}
	count := 0
	for _, g := range strings.Split(string(buf), "\n\n") {
		if strings.Contains(g, "sync.(*RWMutex).RLock") && strings.Contains(g, "internal.(*shardManagerImpl).Get(") {
			count++
		}
	}
	return count
}

func genLayout(base int64, n uint32) []sh {
	var l []sh
	for _, s := range sharding.GenerateShards(base, n) {
		l = append(l, sh{s.Id, s.Min, s.Max})
	}
	return l
}

// runForcedReaders: one client, layout before -> layout after (fresh ids, other shard count), with the forced
// interleaving.  Returns whether a violation was reported.
func runForcedReaders(o *hx.Out, nBefore, nAfter uint32) bool {
	rig := newDispatcherRig()
	defer rig.close()
	before, after := genLayout(0, nBefore), genLayout(int64(nBefore), nAfter)
	holding, release := make(chan struct{}), make(chan struct{})
	var once sync.Once
	hashOf := func(key string) uint32 {
		if key == "hold" {
			once.Do(func() { close(holding) })
			<-release
			return 0
		}
		code, _ := strconv.ParseUint(key, 10, 32)
		return uint32(code)
	}
	rig.publish(world{1: before}.proto())
	recvs, opens := &atomic.Int64{}, &atomic.Int64{}
	pool := &fakePool{c: &fakeOxiaClient{d: rig.d, recvs: recvs, opens: opens}}
	sm, err := oxia.NewVerifShardManagerWithHash(pool, "verif", nsName(1), 10*time.Second, hashOf)
	if err != nil {
		return false
	}
	defer sm.Close()
	for deadline := time.Now().Add(gateTimeout); recvs.Load() < 2 && time.Now().Before(deadline); {
		time.Sleep(20 * time.Microsecond)
	}
	for deadline := time.Now().Add(gateTimeout); inSelectCount() != 1 && time.Now().Before(deadline); {
		time.Sleep(20 * time.Microsecond)
	}
	// a reader takes the read lock and stays there
	holdDone := make(chan struct{})
	go func() { sm.GetKey("hold"); close(holdDone) }()
	<-holding
	// the next assignments arrive: the writer queues behind the reader
	rig.publish(world{1: after}.proto())
	for deadline := time.Now().Add(gateTimeout); !sm.WriterQueued() && time.Now().Before(deadline); {
		time.Sleep(20 * time.Microsecond)
	}
	// probes queue behind the writer
	probes := probeHashes(before, after)
	type outcome struct {
		h        uint32
		id       int64
		panicked bool
	}
	results := make(chan outcome, len(probes))
	for _, h := range probes {
		go func(h uint32) {
			id, p := sm.Get(h)
			results <- outcome{h, id, p}
		}(h)
	}
	for deadline := time.Now().Add(500 * time.Millisecond); blockedReaders() < len(probes) && time.Now().Before(deadline); {
		time.Sleep(50 * time.Microsecond)
	}
	if blockedReaders() < len(probes) {
		o.Count("readers:forced-probes-not-all-queued")
	}
	close(release)
	<-holdDone
	bad := false
	desc := fmt.Sprintf("client map %s, update %s, a reader parked under the read lock, the writer and %d probes queued behind it", fmtShards(before), fmtShards(after), len(probes))
	for range probes {
		r := <-results
		o.Count("readers:forced-probe")
		switch {
		case r.panicked:
			bad = true
			o.Violation("client:route-panics", fmt.Sprintf("Get panics for hash %d while the update is applied (every received list is an exact partition); %s", r.h, desc))
		case !covering(r.h, before, after)[r.id]:
			bad = true
			o.Violation("client:route-to-unpublished-shard", fmt.Sprintf("Get routes hash %d to shard %d, which covers it neither before nor after the update; %s", r.h, r.id, desc))
		}
	}
	// once applied, the map is the published partition
	for deadline := time.Now().Add(gateTimeout); recvs.Load() < 3 && time.Now().Before(deadline); {
		time.Sleep(20 * time.Microsecond)
	}
	var got []sh
	for _, x := range sm.Shards() {
		got = append(got, sh{x.Id, x.HashRange.MinInclusive, x.HashRange.MaxInclusive})
	}
	sort.Slice(got, func(i, j int) bool { return got[i].id < got[j].id })
	if fmtShards(got) != fmtShards(after) {
		o.Violation("client:map-not-partition-after-update", fmt.Sprintf("after the update the client holds %s; %s", fmtShards(got), desc))
	}
	o.Count("readers:forced-schedule")
	return bad
}

// stress readers of one client of the stream leg, while one update is applied
type stressReaders struct {
	stop  atomic.Bool
	wg    sync.WaitGroup
	calls atomic.Int64
}

func startStress(o *hx.Out, sm *oxia.VerifShardManager, prev, next []sh, desc string) *stressReaders {
	s := &stressReaders{}
	probes := probeHashes(prev, next)
	if len(probes) == 0 {
		return s
	}
	var reported atomic.Bool
	for g := 0; g < 3; g++ {
		s.wg.Add(1)
		go func(g int) {
			defer s.wg.Done()
			for i := g; !s.stop.Load(); i++ {
				h := probes[i%len(probes)]
				id, p := sm.Get(h)
				s.calls.Add(1)
				if (p || !covering(h, prev, next)[id]) && !reported.Swap(true) {
					if p {
						o.Violation("client:route-panics", fmt.Sprintf("stress: Get panics for hash %d while %s -> %s is applied; %s", h, fmtShards(prev), fmtShards(next), desc))
					} else {
						o.Violation("client:route-to-unpublished-shard", fmt.Sprintf("stress: Get routes hash %d to shard %d while %s -> %s is applied; %s", h, id, fmtShards(prev), fmtShards(next), desc))
					}
				}
				if i%16 == 0 {
					n := len(sm.GetAll())
					if n != len(prev) && n != len(next) && !reported.Swap(true) {
						o.Violation("client:route-to-unpublished-shard", fmt.Sprintf("stress: GetAll returns %d shards while %s -> %s is applied; %s", n, fmtShards(prev), fmtShards(next), desc))
					}
				}
			}
		}(g)
	}
	return s
}

func (s *stressReaders) finish(o *hx.Out) {
	s.stop.Store(true)
	s.wg.Wait()
	_ = o // the number of calls depends on timing: not recorded
}

// runStressReaders: one client whose namespace is re-created again and again with another shard count and fresh
// ids, three readers in a tight loop while every update is applied.
func runStressReaders(o *hx.Out, rng *hx.Rng, rounds int) {
	rig := newDispatcherRig()
	defer rig.close()
	base := int64(0)
	cur := genLayout(base, uint32(1+rng.Intn(4)))
	base += int64(len(cur))
	rig.publish(world{1: cur}.proto())
	recvs, opens := &atomic.Int64{}, &atomic.Int64{}
	pool := &fakePool{c: &fakeOxiaClient{d: rig.d, recvs: recvs, opens: opens}}
	sm, err := oxia.NewVerifShardManager(pool, "verif", nsName(1), 10*time.Second)
	if err != nil {
		return
	}
	defer sm.Close()
	for deadline := time.Now().Add(gateTimeout); recvs.Load() < 2 && time.Now().Before(deadline); {
		time.Sleep(20 * time.Microsecond)
	}
	for r := 0; r < rounds; r++ {
		next := genLayout(base, uint32(1+rng.Intn(6)))
		base += int64(len(next))
		for deadline := time.Now().Add(gateTimeout); inSelectCount() != 1 && time.Now().Before(deadline); {
			time.Sleep(20 * time.Microsecond)
		}
		st := startStress(o, sm, cur, next, fmt.Sprintf("stress round %d", r))
		runtime.Gosched()
		mark := recvs.Load()
		rig.publish(world{1: next}.proto())
		for deadline := time.Now().Add(gateTimeout); recvs.Load() <= mark && time.Now().Before(deadline); {
			time.Sleep(20 * time.Microsecond)
		}
		st.finish(o)
		o.Count("readers:stress-round")
		cur = next
	}
}
