// harness shard, dispatcher leg: pushes the assignments computed by the real coordinator code through the REAL
// server-side shardAssignmentDispatcher (PushShardAssignments / RegisterForUpdates) and checks that what a client
// of a namespace is sent is exactly that namespace's published list, then hands it to the real client shard map
// and checks that the client routes boundary hash codes to the shard the published list names.
package main

import (
	"context"
	"fmt"
	"io"
	"sort"

	"google.golang.org/grpc"
	"google.golang.org/grpc/health"

	"github.com/oxia-db/oxia/oxia"
	"github.com/oxia-db/oxia/proto"
	"github.com/oxia-db/oxia/server"

	"verif/harness/internal/hx"
)

// fakePush is the coordinator->server stream. Recv is called again only after the dispatcher has applied the
// previous message, which is what ready signals.
type fakePush struct {
	grpc.ServerStream
	ch    chan *proto.ShardAssignments
	ready chan struct{}
	ctx   context.Context
}

func (f *fakePush) Recv() (*proto.ShardAssignments, error) {
	f.ready <- struct{}{}
	m, ok := <-f.ch
	if !ok {
		return nil, io.EOF
	}
	return m, nil
}
func (*fakePush) SendAndClose(*proto.CoordinationShardAssignmentsResponse) error { return nil }
func (f *fakePush) Context() context.Context                                     { return f.ctx }

type fakeClient struct {
	ctx context.Context
	out chan *proto.ShardAssignments
}

func (c *fakeClient) Send(a *proto.ShardAssignments) error {
	select {
	case c.out <- a:
		return nil
	case <-c.ctx.Done():
		return c.ctx.Err()
	}
}
func (c *fakeClient) Context() context.Context { return c.ctx }

type dispatcherRig struct {
	d     server.ShardAssignmentsDispatcher
	push  *fakePush
	pdone chan error
}

func newDispatcherRig() *dispatcherRig {
	r := &dispatcherRig{d: server.NewShardAssignmentDispatcher(health.NewServer()), pdone: make(chan error, 1)}
	r.push = &fakePush{ch: make(chan *proto.ShardAssignments), ready: make(chan struct{}), ctx: context.Background()}
	go func() { r.pdone <- r.d.PushShardAssignments(r.push) }()
	<-r.push.ready
	return r
}

func (r *dispatcherRig) close() {
	close(r.push.ch)
	<-r.pdone
	_ = r.d.Close()
}

// publish hands one message to the dispatcher and returns once it has been applied.
func (r *dispatcherRig) publish(a *proto.ShardAssignments) {
	r.push.ch <- a
	<-r.push.ready
}

// firstMessage registers a new client of the namespace and returns the first message it is sent (nil + error if refused).
func (r *dispatcherRig) firstMessage(namespace string) (*proto.ShardAssignments, error) {
	ctx, cancel := context.WithCancel(context.Background())
	c := &fakeClient{ctx: ctx, out: make(chan *proto.ShardAssignments)}
	done := make(chan error, 1)
	go func() { done <- r.d.RegisterForUpdates(&proto.ShardAssignmentsRequest{Namespace: namespace}, c) }()
	select {
	case m := <-c.out:
		cancel()
		<-done
		return m, nil
	case err := <-done:
		cancel()
		return nil, err
	}
}

// runDispatch replays the messages of one status history. published[i] is what computeNewAssignments produced after step i.
func runDispatch(o *hx.Out, rig *dispatcherRig, published []*proto.ShardAssignments, inDomain []bool, input string) {
	clients := map[string]*oxia.VerifShardMap{}
	for step, msg := range published {
		rig.publish(msg)
		want := pubOf(msg)
		// every namespace of the message, plus one that is not in it
		names := sortedNs(want)
		names = append(names, "ns99")
		for _, name := range names {
			got, err := rig.firstMessage(name)
			wl, configured := want[name]
			if !configured {
				o.Count("dispatch:unknown-namespace")
				if err == nil {
					o.Violation("server:forwarded-assignments-differ", fmt.Sprintf("step %d: namespace %s is not published but a client was sent %v; case: %.300s", step, name, got, input))
				}
				continue
			}
			o.Count("dispatch:namespace-forwarded")
			if err != nil {
				o.Violation("server:forwarded-assignments-differ", fmt.Sprintf("step %d: client of published namespace %s refused: %v; case: %.300s", step, name, err, input))
				continue
			}
			gp := pubOf(got)
			if len(gp) != 1 || fmtPub(map[string][]pubShard{name: gp[name]}) != fmtPub(map[string][]pubShard{name: wl}) {
				o.Violation("server:forwarded-assignments-differ", fmt.Sprintf("step %d: namespace %s published %s, client sent %s; case: %.300s", step, name, fmtPub(map[string][]pubShard{name: wl}), fmtPub(gp), input))
				continue
			}
			// the client side: shardManagerImpl.receive -> update, then Get
			var shards []sh
			for _, s := range gp[name] {
				shards = append(shards, sh{s.id, s.min, s.max})
			}
			byMin := append([]sh(nil), shards...)
			sort.Slice(byMin, func(i, j int) bool { return byMin[i].min < byMin[j].min })
			if !inDomain[step] || !isPartition(byMin) {
				continue // outside the proved domain / namespace being deleted (or the known finding): nothing to route
			}
			cm := clients[name]
			if cm == nil {
				cm = oxia.NewVerifShardMap()
				clients[name] = cm
			}
			cm.Update(toClient(shards))
			// Get / Matching scan the whole map: probe every shard of small maps, an even sample of large ones
			stride := 1 + len(byMin)/64
			for i := 0; i < len(byMin); i += stride {
				s := byMin[i]
				for _, h := range []uint32{s.min, s.max} {
					id, panicked := cm.Route(h)
					match := cm.Matching(h)
					if panicked || len(match) != 1 || id != s.id {
						o.Violation("agree:client-and-published-route-differ", fmt.Sprintf("step %d namespace %s hash %d: published shard %d, client matches %v (Get -> %d, panicked=%v); case: %.300s", step, name, h, s.id, match, id, panicked, input))
					}
					o.Count("dispatch:route-probe")
				}
			}
		}
	}
}
