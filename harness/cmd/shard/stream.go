// harness shard, client stream leg: the client side of the assignment stream END TO END.  The REAL client shard
// manager (oxia/internal NewShardManager: receiveWithRecovery -> receive -> update, through the verif export) is
// connected by a fake rpc.ClientPool to the REAL server-side shardAssignmentDispatcher, which is fed by pushes that
// the REAL computeNewAssignments produces from cluster statuses with leaders absent (bootstrap, namespace just
// added), present, and changing (elections).  After every delivered update the client's map must be EXACTLY the
// published partition of its namespace -- whether or not a leader is known --, Get must not panic for any probe
// hash, and the leaders must be the published ones.
package main

import (
	"context"
	"fmt"
	"io"
	"sort"
	"strings"
	"sync"
	"sync/atomic"
	"time"

	"google.golang.org/grpc"
	"google.golang.org/grpc/health/grpc_health_v1"

	"github.com/oxia-db/oxia/coordinator"
	"github.com/oxia-db/oxia/coordinator/model"
	"github.com/oxia-db/oxia/oxia"
	"github.com/oxia-db/oxia/proto"
	"github.com/oxia-db/oxia/server"

	"verif/harness/internal/hx"
)

// ---- fake client pool: GetShardAssignments is RegisterForUpdates of the dispatcher

type assignStream struct {
	grpc.ClientStream
	ctx   context.Context
	ch    chan *proto.ShardAssignments
	errc  chan error
	recvs *atomic.Int64 // Recv calls of the client: the n-th call means n-1 messages have been applied
}

func (s *assignStream) Send(a *proto.ShardAssignments) error {
	select {
	case s.ch <- a:
		return nil
	case <-s.ctx.Done():
		return s.ctx.Err()
	}
}
func (s *assignStream) Context() context.Context { return s.ctx }
func (s *assignStream) Recv() (*proto.ShardAssignments, error) {
	s.recvs.Add(1)
	select {
	case a := <-s.ch:
		return a, nil
	case err := <-s.errc:
		if err == nil {
			err = io.EOF
		}
		return nil, err
	case <-s.ctx.Done():
		return nil, s.ctx.Err()
	}
}

type fakeOxiaClient struct {
	proto.OxiaClientClient
	d     server.ShardAssignmentsDispatcher
	recvs *atomic.Int64
	opens *atomic.Int64
}

func (f *fakeOxiaClient) GetShardAssignments(ctx context.Context, req *proto.ShardAssignmentsRequest, _ ...grpc.CallOption) (proto.OxiaClient_GetShardAssignmentsClient, error) {
	f.opens.Add(1)
	st := &assignStream{ctx: ctx, ch: make(chan *proto.ShardAssignments), errc: make(chan error, 1), recvs: f.recvs}
	go func() { st.errc <- f.d.RegisterForUpdates(req, st) }()
	return st, nil
}

type fakePool struct{ c *fakeOxiaClient }

func (p *fakePool) Close() error                                        { return nil }
func (p *fakePool) GetClientRpc(string) (proto.OxiaClientClient, error) { return p.c, nil }
func (p *fakePool) GetHealthRpc(string) (grpc_health_v1.HealthClient, io.Closer, error) {
	return nil, nil, fmt.Errorf("not used")
}
func (p *fakePool) GetCoordinationRpc(string) (proto.OxiaCoordinationClient, error) {
	return nil, fmt.Errorf("not used")
}
func (p *fakePool) GetReplicationRpc(string) (proto.OxiaLogReplicationClient, error) {
	return nil, fmt.Errorf("not used")
}
func (p *fakePool) Clear(string) {}

type streamClient struct {
	ns    int
	sm    *oxia.VerifShardManager
	recvs *atomic.Int64
	opens *atomic.Int64
	bad   bool   // already reported
	hist  [][]sh // what it was sent (ids and ranges), for the model of the client map
	first bool
}

type streamRun struct {
	o       *hx.Out
	r       *stRun
	rig     *dispatcherRig
	clients []*streamClient
	mu      sync.Mutex
	ops     []string
}

func (s *streamRun) desc() string { return strings.Join(s.ops, ";") }

// waitApplied waits until the client has asked for another message since mark (it does so only after it has
// applied the previous one).
func (s *streamRun) waitApplied(c *streamClient, mark int64) bool {
	deadline := time.Now().Add(gateTimeout)
	for time.Now().Before(deadline) {
		if c.recvs.Load() > mark {
			return true
		}
		time.Sleep(20 * time.Microsecond)
	}
	return false
}

func (s *streamRun) connect(ns int) {
	c := &streamClient{ns: ns, recvs: &atomic.Int64{}, opens: &atomic.Int64{}, first: true}
	pool := &fakePool{c: &fakeOxiaClient{d: s.rig.d, recvs: c.recvs, opens: c.opens}}
	sm, err := oxia.NewVerifShardManager(pool, "verif", nsName(ns), 10*time.Second)
	if err != nil {
		s.o.Count("stream:client-refused")
		return
	}
	c.sm = sm
	// NewShardManager returns after the first update was applied; the receive loop then asks for the next message
	deadline := time.Now().Add(gateTimeout)
	for c.recvs.Load() < 2 && time.Now().Before(deadline) {
		time.Sleep(20 * time.Microsecond)
	}
	s.clients = append(s.clients, c)
	s.o.Count("stream:client-connected")
}

// check compares every client with what is published for its namespace right now.
func (s *streamRun) check(pub map[string][]pubShard, after string) {
	var keep []*streamClient
	for _, c := range s.clients {
		want, ok := pub[nsName(c.ns)]
		if !ok {
			// its namespace is gone: the real client ends with "namespace not found"
			_ = c.sm.Close()
			s.o.Count("stream:client-namespace-gone")
			continue
		}
		keep = append(keep, c)
		var shards []sh
		for _, p := range want {
			shards = append(shards, sh{p.id, p.min, p.max})
		}
		byMin := append([]sh(nil), shards...)
		sort.Slice(byMin, func(i, j int) bool { return byMin[i].min < byMin[j].min })
		if !isPartition(byMin) {
			continue // namespace being deleted (or the known finding O-18(b)): the client keeps what it has
		}
		if len(c.hist) == 0 || fmtShards(c.hist[len(c.hist)-1]) != fmtShards(shards) {
			c.hist = append(c.hist, shards)
		}
		leaderless := 0
		for _, p := range want {
			if p.leader == "" {
				leaderless++
			}
		}
		kind := "later-update"
		if c.first {
			kind = "first-snapshot"
		}
		c.first = false
		s.o.Count(fmt.Sprintf("stream:%s-checked", kind))
		if leaderless > 0 {
			s.o.Count(fmt.Sprintf("stream:%s-with-leaderless-shards", kind))
		}
		if c.bad {
			continue
		}
		var got []sh
		leaders := map[int64]string{}
		snapshot := func() {
			got, leaders = nil, map[int64]string{}
			for _, x := range c.sm.Shards() {
				got = append(got, sh{x.Id, x.HashRange.MinInclusive, x.HashRange.MaxInclusive})
				leaders[x.Id] = x.Leader
			}
			sort.Slice(got, func(i, j int) bool { return got[i].id < got[j].id })
		}
		snapshot()
		// a client that was cut off subscribes again after a back-off: give it a second before calling it wrong
		for deadline := time.Now().Add(time.Second); fmtShards(got) != fmtShards(shards) && time.Now().Before(deadline); snapshot() {
			time.Sleep(time.Millisecond)
		}
		if fmtShards(got) != fmtShards(shards) {
			c.bad = true
			s.o.Violation("client:map-not-partition-after-update", fmt.Sprintf("client of %s (%s, %d of %d shards published without a leader) holds %s, the servers publish %s; after %s; history: %.400s",
				nsName(c.ns), kind, leaderless, len(want), fmtShards(got), fmtShards(shards), after, s.desc()))
		}
		all := append([]int64(nil), c.sm.GetAll()...)
		if len(all) != len(want) {
			s.o.Violation("client:map-not-partition-after-update", fmt.Sprintf("client of %s: GetAll returns %d shards, %d are published; after %s; history: %.400s", nsName(c.ns), len(all), len(want), after, s.desc()))
		}
		for _, p := range want {
			if l, ok := leaders[p.id]; ok && l != p.leader {
				s.o.Violation("client:leader-differs-from-published", fmt.Sprintf("client of %s: shard %d has leader %q, published %q; after %s; history: %.400s", nsName(c.ns), p.id, l, p.leader, after, s.desc()))
			}
			for _, h := range []uint32{p.min, p.max} {
				id, panicked := c.sm.Get(h)
				switch {
				case panicked:
					s.o.Violation("client:route-panics", fmt.Sprintf("client of %s (%s): Get panics for hash %d, which the servers route to shard %d (published leader %q); after %s; history: %.400s", nsName(c.ns), kind, h, p.id, p.leader, after, s.desc()))
				case id != p.id:
					s.o.Violation("agree:client-and-published-route-differ", fmt.Sprintf("client of %s routes hash %d to shard %d, the servers publish shard %d; after %s; history: %.400s", nsName(c.ns), h, id, p.id, after, s.desc()))
				}
			}
		}
	}
	s.clients = keep
}

// step runs one op on the real status code, publishes what computeNewAssignments makes of it, and waits until
// every connected client has applied the update.
func (s *streamRun) step(op stOp) {
	s.ops = append(s.ops, op.String())
	s.r.input = "0 0 - " + s.desc()
	s.r.classify(op)
	_ = s.r.step(op)
	msg := coordinator.VerifComputeAssignments(s.r.sr)
	// every client must sit in the dispatcher's select, otherwise the push cuts it off (it would subscribe again)
	deadline := time.Now().Add(gateTimeout)
	for inSelectCount() != len(s.clients) && time.Now().Before(deadline) {
		time.Sleep(20 * time.Microsecond)
	}
	marks := make([]int64, len(s.clients))
	for i, c := range s.clients {
		marks[i] = c.recvs.Load()
	}
	s.rig.publish(msg)
	for i, c := range s.clients {
		if !s.waitApplied(c, marks[i]) {
			s.o.Count("stream:update-not-applied-in-time")
		}
	}
	s.check(pubOf(msg), op.String())
}

func (s *streamRun) finish() {
	for _, c := range s.clients {
		_ = c.sm.Close()
	}
	// the histories of what the clients were sent go to the model of the client map as well
	for _, c := range s.clients {
		if len(c.hist) > 0 {
			runUpdate(s.o, c.hist, true)
		}
	}
	s.rig.close()
}

func genStream(o *hx.Out, rng *hx.Rng) {
	s := &streamRun{o: o, r: newCoordRun(nil, 0, 0), rig: newDispatcherRig()}
	s.r.o = o
	s.r.masked = false
	s.r.inDomain = true
	servers := []int{1, 2, 3}
	cfg := stOp{kind: 'A', servers: servers}
	for k := 1 + rng.Intn(2); k > 0; k-- {
		cfg.ns = append(cfg.ns, nsCfg{len(cfg.ns) + 1, uint32(1 + rng.Intn(4)), uint32(1 + rng.Intn(2))})
	}
	// bootstrap: no shard has a leader
	s.step(cfg)
	if rng.Chance(60) {
		s.connect(1 + rng.Intn(len(cfg.ns))) // a client whose first snapshot has no leader at all
	}
	term := int64(0)
	for n := 6 + rng.Intn(8); n > 0; n-- {
		st := s.r.sr.Load()
		type ref struct {
			ns int
			id int64
			m  model.ShardMetadata
		}
		var live, deleting []ref
		for name, ns := range st.Namespaces {
			for id, m := range ns.Shards {
				if m.Status == model.ShardStatusDeleting {
					deleting = append(deleting, ref{nsNum(name), id, m})
				} else {
					live = append(live, ref{nsNum(name), id, m})
				}
			}
		}
		sort.Slice(live, func(i, j int) bool { return live[i].id < live[j].id })
		sort.Slice(deleting, func(i, j int) bool { return deleting[i].id < deleting[j].id })
		x := rng.Intn(100)
		switch {
		case x < 45 && len(live) > 0:
			// an election step of one shard: it loses its leader (election running), or gets one (elected / leader change)
			l := live[rng.Intn(len(live))]
			term++
			op := stOp{kind: 'M', name: l.ns, id: l.id, term: term, ens: srvNums(l.m.Ensemble), min: l.m.Int32HashRange.Min, max: l.m.Int32HashRange.Max}
			if l.m.Leader != nil && rng.Chance(40) {
				op.st, op.leader = int(model.ShardStatusElection), -1
			} else {
				op.st, op.leader = int(model.ShardStatusSteadyState), op.ens[rng.Intn(len(op.ens))]
			}
			s.step(op)
		case x < 65 && len(s.clients) < 4 && len(st.Namespaces) > 0:
			names := sortedNs(st.Namespaces)
			s.connect(nsNum(names[rng.Intn(len(names))]))
			s.check(pubOf(coordinator.VerifComputeAssignments(s.r.sr)), "connect")
		case x < 80 && len(cfg.ns) < 3:
			// a namespace is added while the others are steady or electing: its shards have no leader yet
			used := map[int]bool{}
			for _, n := range cfg.ns {
				used[n.name] = true
			}
			for k := 1; k <= 4; k++ {
				if !used[k] {
					cfg.ns = append(append([]nsCfg(nil), cfg.ns...), nsCfg{k, uint32(1 + rng.Intn(4)), uint32(1 + rng.Intn(2))})
					break
				}
			}
			s.step(cfg)
		case x < 88 && len(cfg.ns) > 1:
			i := rng.Intn(len(cfg.ns))
			cfg.ns = append(append([]nsCfg(nil), cfg.ns[:i]...), cfg.ns[i+1:]...)
			s.step(cfg)
		case len(deleting) > 0:
			d := deleting[rng.Intn(len(deleting))]
			s.step(stOp{kind: 'D', name: d.ns, id: d.id})
		}
	}
	s.finish()
}
