// harness shard, compare-and-set leg: the REAL Coordinator.ConfigChanged of a live coordinator racing with the shard
// controllers, which write the cluster status without the coordinator lock.  The scheduler completes the deletion
// of a Deleting shard (it releases the blocked DeleteShard RPC of the fake rpc provider and waits until the real
// shard controller has run DeleteShardMetadata) exactly between the LoadWithVersion and the Swap of a config
// change, 1..3 times in a row, then re-adds the namespace, adds others, restarts.
//
// The only code of the window that the harness can be called from is the log call of ApplyClusterChanges for a
// namespace whose ensemble selection fails: every config change of this leg carries a namespace with more replicas
// than servers, and the harness installs an slog handler that runs the armed injection when that line is logged.
//
// Model: ConfigChanged with k lost attempts is  C<cfg>;D..;C<cfg>;D..;X<cfg>  of the coord kind (OpCasLost /
// OpDeleted / OpApply of Oxia.Shard.Status): the attempt whose Swap succeeds is an atomic apply on the latest status.
package main

import (
	"context"
	"fmt"
	"io"
	"log/slog"
	"os"
	"runtime"
	"strings"
	"sync"
	"sync/atomic"
	"time"

	"google.golang.org/grpc/health/grpc_health_v1"

	"github.com/oxia-db/oxia/coordinator"
	"github.com/oxia-db/oxia/coordinator/model"
	"github.com/oxia-db/oxia/coordinator/resources"
	"github.com/oxia-db/oxia/proto"

	"verif/harness/internal/hx"
)

// ---- the injection point: the log line inside the compare-and-set window

var casHook atomic.Pointer[func()]

type hookHandler struct{}

func (hookHandler) Enabled(_ context.Context, l slog.Level) bool { return l >= slog.LevelError }
func (hookHandler) Handle(_ context.Context, r slog.Record) error {
	if strings.HasPrefix(r.Message, "failed to select new ensembles") {
		if f := casHook.Load(); f != nil {
			(*f)()
		}
	}
	return nil
}
func (h hookHandler) WithAttrs([]slog.Attr) slog.Handler { return h }
func (h hookHandler) WithGroup(string) slog.Handler      { return h }

// ---- rpc provider: nodes healthy, elections succeed at once, DeleteShard blocks until the scheduler releases the shard

type gatedRPC struct {
	mu    sync.Mutex
	gates map[int64]chan struct{}
}

func (g *gatedRPC) gate(id int64) chan struct{} {
	g.mu.Lock()
	defer g.mu.Unlock()
	if g.gates[id] == nil {
		g.gates[id] = make(chan struct{})
	}
	return g.gates[id]
}
func (*gatedRPC) PushShardAssignments(ctx context.Context, _ model.Server) (proto.OxiaCoordination_PushShardAssignmentsClient, error) {
	return &stubPush{ctx: ctx}, nil
}
func (*gatedRPC) NewTerm(context.Context, model.Server, *proto.NewTermRequest) (*proto.NewTermResponse, error) {
	return &proto.NewTermResponse{HeadEntryId: &proto.EntryId{Term: -1, Offset: -1}}, nil
}
func (*gatedRPC) BecomeLeader(context.Context, model.Server, *proto.BecomeLeaderRequest) (*proto.BecomeLeaderResponse, error) {
	return &proto.BecomeLeaderResponse{}, nil
}
func (*gatedRPC) AddFollower(context.Context, model.Server, *proto.AddFollowerRequest) (*proto.AddFollowerResponse, error) {
	return &proto.AddFollowerResponse{}, nil
}
func (*gatedRPC) GetStatus(ctx context.Context, _ model.Server, _ *proto.GetStatusRequest) (*proto.GetStatusResponse, error) {
	return nil, fmt.Errorf("stub: no status")
}

// DeleteShard blocks for the shards the scheduler holds back (the Deleting shards of the scenario); the removal of a
// replica from a swapped-out node of any other shard is answered at once.
func (g *gatedRPC) DeleteShard(ctx context.Context, _ model.Server, req *proto.DeleteShardRequest) (*proto.DeleteShardResponse, error) {
	g.mu.Lock()
	ch := g.gates[req.Shard]
	g.mu.Unlock()
	if ch == nil {
		return &proto.DeleteShardResponse{}, nil
	}
	select {
	case <-ch:
		return &proto.DeleteShardResponse{}, nil
	case <-ctx.Done():
		return nil, ctx.Err()
	}
}
func (*gatedRPC) GetHealthClient(model.Server) (grpc_health_v1.HealthClient, io.Closer, error) {
	return stubHealth{}, nopCloser{}, nil
}
func (*gatedRPC) ClearPooledConnections(model.Server) {}

// ---- one scenario

type casRun struct {
	r       *stRun
	c       coordinator.Coordinator
	rpc     *gatedRPC
	cfgMu   sync.Mutex
	cfg     model.ClusterConfig
	notify  chan any
	loaded  chan struct{} // the config watcher has called the config provider and is parked in it
	release chan struct{} // lets the parked config provider return
	park    atomic.Bool
	ops     []string
	results []string
}

func cfgOf(op stOp) model.ClusterConfig {
	cfg := model.ClusterConfig{}
	for _, n := range op.ns {
		cfg.Namespaces = append(cfg.Namespaces, model.NamespaceConfig{Name: nsName(n.name), InitialShardCount: n.count, ReplicationFactor: n.rf})
	}
	for _, k := range op.servers {
		cfg.Servers = append(cfg.Servers, srv(k))
	}
	return cfg
}

// observe records one op of the linearized history with the status / published assignments seen after it.
func (s *casRun) observe(head string, op stOp) {
	r := s.r
	r.input = fmt.Sprintf("0 0 - %s", strings.Join(append(s.ops, op.String()), ";"))
	r.classify(op)
	st := r.sr.Load()
	pub := pubOf(coordinator.VerifComputeAssignments(fixedStatus{st: st}))
	if op.kind == 'X' {
		cfg := cfgOf(op)
		r.cfg = &cfg
	}
	r.verdicts(op, st, pub)
	s.ops = append(s.ops, op.String())
	s.results = append(s.results, head+"{"+fmtStatusMasked(st)+"}{pub:"+fmtPubMasked(pub)+"}")
	r.o.Count("cas:op-" + string(op.kind))
}

func (s *casRun) waitGone(name string, id int64) bool {
	deadline := time.Now().Add(coordStartTimeout)
	for time.Now().Before(deadline) {
		if _, ok := s.r.sr.Load().Namespaces[name].Shards[id]; !ok {
			return true
		}
		time.Sleep(50 * time.Microsecond)
	}
	s.r.o.Violation("cas:shard-deletion-did-not-complete", fmt.Sprintf("shard %d of %s was not removed from the status after its DeleteShard RPC returned; case: %.300s", id, name, s.r.input))
	return false
}

// The config watcher of the coordinator takes the next notification only after ConfigChanged has returned, and then
// calls the config provider, which belongs to the harness and parks there.  While it is parked no ConfigChanged runs.
// quiesce returns once every ConfigChanged started so far has returned, with the watcher parked.
func (s *casRun) quiesce() {
	s.notify <- nil
	<-s.loaded
}

// change applies a config change through the live coordinator; inject = ids of Deleting shards of namespace
// victim whose deletion completes inside the compare-and-set window, one per attempt.
func (s *casRun) change(op stOp, victim int, inject []int64) {
	lost := op
	lost.kind = 'C'
	pos := 0
	hook := func() {
		if pos >= len(inject) {
			return
		}
		id := inject[pos]
		pos++
		s.observe("lost", lost) // this attempt has read the status; what it computes will not be stored
		close(s.rpc.gate(id))
		s.waitGone(nsName(victim), id)
		s.observe("", stOp{kind: 'D', name: victim, id: id})
	}
	casHook.Store(&hook)
	s.cfgMu.Lock()
	s.cfg = cfgOf(op)
	s.cfgMu.Unlock()
	s.release <- struct{}{} // the parked watcher gets the new configuration and calls ConfigChanged
	s.quiesce()
	casHook.Store(nil)
	if pos < len(inject) {
		s.r.o.Count("cas:injection-point-not-reached")
	}
	s.observe("changed", op)
}

func runCas(o *hx.Out, rng *hx.Rng, n, pre, k int, readd bool) {
	s := &casRun{r: newCoordRun(o, 0, 0), rpc: &gatedRPC{gates: map[int64]chan struct{}{}}, notify: make(chan any), loaded: make(chan struct{}), release: make(chan struct{})}
	r := s.r
	servers := []int{1, 2, 3}
	step := func(op stOp) {
		r.input = fmt.Sprintf("0 0 - %s", strings.Join(append(s.ops, op.String()), ";"))
		r.classify(op)
		s.results = append(s.results, r.step(op))
		s.ops = append(s.ops, op.String())
	}
	// namespace 1 with n shards is created and removed again: its shards are Deleting
	step(stOp{kind: 'A', ns: []nsCfg{{1, uint32(n), 1}}, servers: servers})
	step(stOp{kind: 'A', servers: servers})
	var victims []int64
	for id := range r.sr.Load().Namespaces[nsName(1)].Shards {
		victims = append(victims, id)
	}
	sortInt64(victims)
	for _, id := range victims {
		s.rpc.gate(id) // held back until the scheduler releases it
	}
	// the coordinator starts; the controllers of the Deleting shards sit in their DeleteShard RPC
	start := stOp{kind: 'R', servers: servers}
	s.cfg = cfgOf(start)
	type started struct {
		c   coordinator.Coordinator
		err error
	}
	ch := make(chan started, 1)
	go func() {
		c, err := coordinator.NewCoordinator(r.meta, func() (model.ClusterConfig, error) {
			if s.park.Load() {
				s.loaded <- struct{}{}
				<-s.release
			}
			s.cfgMu.Lock()
			defer s.cfgMu.Unlock()
			return s.cfg, nil
		}, s.notify, s.rpc)
		ch <- started{c, err}
	}()
	select {
	case x := <-ch:
		if x.err != nil {
			return
		}
		s.c = x.c
	case <-time.After(coordStartTimeout):
		o.Violation("coord:start-up-did-not-complete", "NewCoordinator did not return (cas leg)")
		return
	}
	r.sr = s.c.StatusResource()
	r.cfg = &s.cfg
	s.park.Store(true)
	s.quiesce()
	s.observe("restart", start)
	// deletions that complete before the config change
	for _, id := range victims[:pre] {
		close(s.rpc.gate(id))
		s.waitGone(nsName(1), id)
		s.observe("", stOp{kind: 'D', name: 1, id: id})
	}
	// config change 1: namespace 2 is added (9 can never be created: 9 replicas on 3 servers), and k deletions
	// complete inside the compare-and-set window
	c1 := stOp{kind: 'X', servers: servers, ns: []nsCfg{{2, uint32(1 + rng.Intn(3)), 1}, {9, 1, 9}}}
	s.change(c1, 1, victims[pre:pre+k])
	if pre+k == n {
		o.Count("cas:namespace-deletion-completed-inside-the-window")
	}
	// config change 2: namespace 1 comes back (or not), a marker namespace is added
	c2 := stOp{kind: 'X', servers: servers, ns: append([]nsCfg(nil), c1.ns...)}
	if readd {
		c2.ns = append([]nsCfg{{1, uint32(1 + rng.Intn(3)), 1}}, c2.ns...)
	}
	c2.ns = append(c2.ns, nsCfg{3, 1, 2})
	s.change(c2, 1, nil)
	// the remaining deletions complete, then the coordinator goes away and comes back
	for _, id := range victims[pre+k:] {
		close(s.rpc.gate(id))
		s.waitGone(nsName(1), id)
		s.observe("", stOp{kind: 'D', name: 1, id: id})
	}
	// the watcher is handed the configuration it already has and ends; then the coordinator is closed
	s.park.Store(false)
	s.release <- struct{}{}
	closed := make(chan struct{})
	go func() { _ = s.c.Close(); close(closed) }()
	select {
	case <-closed:
	case <-time.After(coordStartTimeout):
		if os.Getenv("VERIF_DEBUG") != "" {
			buf := make([]byte, 1<<22)
			os.Stderr.Write(buf[:runtime.Stack(buf, true)])
			os.Exit(3)
		}
		o.Violation("coord:close-did-not-complete", fmt.Sprintf("Coordinator.Close did not return (cas leg); case: %.300s", r.input))
		return
	}
	r.sr = resources.NewStatusResource(r.meta)
	last := c2
	last.kind = 'R'
	step(last)
	r.finishCoord(s.ops, s.results, 0, 0)
}

func sortInt64(l []int64) {
	for i := 1; i < len(l); i++ {
		for j := i; j > 0 && l[j] < l[j-1]; j-- {
			l[j], l[j-1] = l[j-1], l[j]
		}
	}
}

func genCas(o *hx.Out, rng *hx.Rng) {
	n := 1 + rng.Intn(3)
	pre := rng.Intn(n)
	k := 1 + rng.Intn(n-pre)
	if rng.Chance(60) { // the whole namespace finishes deleting inside the window
		k = n - pre
	}
	runCas(o, rng, n, pre, k, rng.Chance(85))
}
