// harness keyorder (C11, pure-function leg): drives compare.CompareWithSlash, the members of
// kv.OxiaSlashSpanComparer (Separator, Successor, AbbreviatedKey, ImmediateSuccessor, Split, Equal),
// Pebble's own guard around them (pebble.InternalKey.Separator / .Successor, what the sstable writer
// stores in index blocks) and the client's ResultHeap on generated pairs / triples of keys, writes
// inputs + canonical outputs for the Coq model (Oxia.KeyOrder.Model) and evaluates the order laws and
// the engine contracts directly on the Go functions.
package main

import (
	"bytes"
	"container/heap"
	"flag"
	"fmt"
	"strconv"
	"strings"

	"github.com/cockroachdb/pebble"

	"github.com/oxia-db/oxia/common/compare"
	"github.com/oxia-db/oxia/oxia"
	"github.com/oxia-db/oxia/server/kv"

	"verif/harness/internal/hx"
)

var alphabet = []byte{'.', '/', '0', '-', 'a', 'b', 0x00, 0x01, 0xfe, 0xff, '%'}

func sign(x int) int {
	switch {
	case x < 0:
		return -1
	case x > 0:
		return 1
	}
	return 0
}

// specCompare is the specification order written independently of the implementation:
// split on '/', every segment but the last is flagged, compare (flag, bytes) lexicographically, unflagged first.
func specCompare(a, b []byte) int {
	sa, sb := bytes.Split(a, []byte{'/'}), bytes.Split(b, []byte{'/'})
	for i := 0; ; i++ {
		// both lists end with their unflagged element at the same time or the flags differ before
		fa, fb := i < len(sa)-1, i < len(sb)-1
		if fa != fb {
			if !fa {
				return -1
			}
			return 1
		}
		if c := bytes.Compare(sa[i], sb[i]); c != 0 {
			return c
		}
		if !fa {
			return 0
		}
	}
}

var cmpr = kv.OxiaSlashSpanComparer

func cmp(a, b []byte) int { return sign(compare.CompareWithSlash(a, b)) }

func clone(b []byte) []byte { return append([]byte(nil), b...) }

type H struct {
	o *hx.Out
}

func guarded(f func() string) (res string) {
	defer func() {
		if r := recover(); r != nil {
			res = "panic"
		}
	}()
	return f()
}

func mk(user []byte) pebble.InternalKey {
	// a SET with some sequence number, as the sstable writer sees it
	return pebble.InternalKey{UserKey: user, Trailer: (uint64(7) << 8) | uint64(pebble.InternalKeyKindSet)}
}

// single emits the one-argument cases for a and checks their laws.
func (h *H) single(a []byte) {
	o := h.o
	ha := hx.Hex(a)
	a0 := clone(a)
	// Successor
	var s []byte
	res := guarded(func() string { s = cmpr.Successor(nil, a); return hx.Hex(s) })
	o.Case("succ", ha, res, "")
	if res != "panic" {
		if cmp(a, s) > 0 {
			o.Violation("succ:lower-bound", fmt.Sprintf("Successor(%q) = %q sorts before its argument", a, s))
		}
		pre := []byte("PRE")
		if t := cmpr.Successor(clone(pre), a); !bytes.Equal(t, append(clone(pre), s...)) {
			o.Violation("succ:dst-prefix-not-preserved", fmt.Sprintf("Successor(dst=%q, %q) = %q, expected dst ++ %q", pre, a, t, s))
		}
	}
	var es []byte
	res = guarded(func() string { es = mk(a).Successor(cmpr.Compare, cmpr.Successor, nil).UserKey; return hx.Hex(es) })
	o.Case("effsucc", ha, res, "")
	if res != "panic" && cmp(a, es) > 0 {
		o.Violation("effsucc:lower-bound", fmt.Sprintf("index successor of %q is %q which sorts before it", a, es))
	}
	// the bytewise members of pebble.DefaultComparer (what was configured before the repair of O-9): model only
	res = guarded(func() string { return hx.Hex(pebble.DefaultComparer.Successor(nil, a)) })
	o.Case("bsucc", ha, res, "")
	res = guarded(func() string {
		return hx.Hex(mk(a).Successor(cmpr.Compare, pebble.DefaultComparer.Successor, nil).UserKey)
	})
	o.Case("beffsucc", ha, res, "")
	// AbbreviatedKey
	res = guarded(func() string { return strconv.FormatUint(cmpr.AbbreviatedKey(a), 10) })
	nt := ""
	if len(a) > 8 || bytes.IndexByte(a, '/') >= 0 {
		nt = ha
	}
	o.Case("abbrev", ha, res, nt)
	// ImmediateSuccessor
	var is []byte
	res = guarded(func() string { is = cmpr.ImmediateSuccessor(nil, a); return hx.Hex(is) })
	o.Case("immsucc", ha, res, "")
	if res != "panic" && cmp(a, is) >= 0 {
		o.Violation("immsucc:not-greater", fmt.Sprintf("ImmediateSuccessor(%q) = %q is not greater", a, is))
	}
	if !bytes.Equal(a, a0) {
		o.Violation("member:mutates-input", fmt.Sprintf("a comparer member modified its argument %q -> %q", a0, a))
	}
}

// pair emits the two-argument cases for (a, b) and checks the laws that speak about two keys.
func (h *H) pair(a, b []byte) {
	o := h.o
	in := hx.Hex(a) + " " + hx.Hex(b)
	a0, b0 := clone(a), clone(b)
	c := cmp(a, b)
	sa, sb := bytes.IndexByte(a, '/') >= 0, bytes.IndexByte(b, '/') >= 0
	switch {
	case bytes.Equal(a, b):
		o.Count("pair:identical")
	case sa && sb:
		o.Count("pair:both-have-slash")
	case sa != sb:
		o.Count("pair:one-has-slash")
	default:
		o.Count("pair:no-slash")
	}
	if n := sharedPrefix(a, b); n >= 8 {
		o.Count("pair:shared-prefix>=8")
	}
	nt := ""
	if !bytes.Equal(a, b) && len(a) > 0 && len(b) > 0 && (sa || sb) {
		nt = in
	}
	o.Case("cmp", in, strconv.Itoa(c), nt)
	o.Case("speccmp", in, strconv.Itoa(c), "") // the same observable against the extracted specification order (enc + lex)
	// --- order laws on the Go function
	if (c == 0) != bytes.Equal(a, b) {
		o.Violation("cmp:eq-iff-identical", fmt.Sprintf("CompareWithSlash(%q,%q) = %d", a, b, c))
	}
	if cmpr.Equal(a, b) != (c == 0) {
		o.Violation("cmp:equal-member-inconsistent", fmt.Sprintf("Equal(%q,%q) = %v but Compare = %d", a, b, cmpr.Equal(a, b), c))
	}
	if sign(cmpr.Compare(a, b)) != c {
		o.Violation("cmp:comparer-compare-differs", fmt.Sprintf("Comparer.Compare(%q,%q) differs from CompareWithSlash", a, b))
	}
	if r := cmp(b, a); r != -c {
		o.Violation("cmp:antisymmetry", fmt.Sprintf("cmp(%q,%q) = %d but cmp(b,a) = %d", a, b, c, r))
	}
	if s := specCompare(a, b); s != c {
		o.Violation("cmp:differs-from-segment-order", fmt.Sprintf("CompareWithSlash(%q,%q) = %d, segment order says %d", a, b, c, s))
	}
	// --- Separator and what the sstable writer makes of it
	var s []byte
	res := guarded(func() string { s = cmpr.Separator(nil, a, b); return hx.Hex(s) })
	o.Case("sep", in, res, "")
	if res != "panic" && c < 0 {
		o.Count("sep:contract-applicable")
		if cmp(a, s) > 0 {
			o.Violation("sep:lower-bound", fmt.Sprintf("a=%q < b=%q but Separator(a,b) = %q sorts before a", a, b, s))
		}
		if cmp(s, b) >= 0 {
			o.Violation("sep:upper-bound", fmt.Sprintf("a=%q < b=%q but Separator(a,b) = %q does not sort before b", a, b, s))
		}
		pre := []byte("PRE")
		if t := cmpr.Separator(clone(pre), a, b); !bytes.Equal(t, append(clone(pre), s...)) {
			o.Violation("sep:dst-prefix-not-preserved", fmt.Sprintf("Separator(dst=%q,%q,%q) = %q, expected dst ++ %q", pre, a, b, t, s))
		}
	}
	var es []byte
	res = guarded(func() string {
		es = mk(a).Separator(cmpr.Compare, cmpr.Separator, nil, mk(b)).UserKey
		return hx.Hex(es)
	})
	o.Case("effsep", in, res, "")
	if res != "panic" && c < 0 {
		if cmp(a, es) > 0 {
			o.Violation("effsep:lower-bound", fmt.Sprintf("last key of block %q, first of next %q: index separator %q sorts before the block's last key", a, b, es))
		}
		if cmp(es, b) >= 0 {
			o.Violation("effsep:upper-bound", fmt.Sprintf("last key of block %q, first of next %q: index separator %q does not sort before the next block", a, b, es))
		}
	}
	// bytewise members (pre-repair configuration): correspondence of the historical model only
	var bs []byte
	res = guarded(func() string { bs = pebble.DefaultComparer.Separator(nil, a, b); return hx.Hex(bs) })
	o.Case("bsep", in, res, "")
	var bes []byte
	res = guarded(func() string {
		bes = mk(a).Separator(cmpr.Compare, pebble.DefaultComparer.Separator, nil, mk(b)).UserKey
		return hx.Hex(bes)
	})
	o.Case("beffsep", in, res, "")
	if c < 0 {
		if cmp(a, bs) > 0 || cmp(bs, b) >= 0 {
			o.Count("history:bytewise-separator-would-break-contract")
		}
		if cmp(bes, b) >= 0 {
			o.Count("history:bytewise-index-separator-would-break-upper-bound")
		}
	}
	// --- AbbreviatedKey is consistent with the order
	ka, kb := cmpr.AbbreviatedKey(a), cmpr.AbbreviatedKey(b)
	if (ka < kb && c >= 0) || (ka > kb && c <= 0) {
		o.Violation("abbrev:order-inconsistent", fmt.Sprintf("AbbreviatedKey(%q) = %d, AbbreviatedKey(%q) = %d, but cmp = %d", a, ka, b, kb, c))
	}
	// --- ImmediateSuccessor(a) is the least key above a
	if c < 0 {
		if is := cmpr.ImmediateSuccessor(nil, a); cmp(is, b) > 0 {
			o.Violation("immsucc:not-least", fmt.Sprintf("a=%q < k=%q < ImmediateSuccessor(a)=%q", a, b, is))
		}
	}
	if !bytes.Equal(a, a0) || !bytes.Equal(b, b0) {
		o.Violation("member:mutates-input", fmt.Sprintf("a comparer member modified its arguments %q,%q -> %q,%q", a0, b0, a, b))
	}
}

func (h *H) triple(a, b, c []byte) {
	ks := [][]byte{a, b, c}
	for i := 0; i < 3; i++ {
		for j := 0; j < 3; j++ {
			for k := 0; k < 3; k++ {
				if i == j || j == k || i == k {
					continue
				}
				x, y, z := ks[i], ks[j], ks[k]
				if cmp(x, y) < 0 && cmp(y, z) < 0 {
					h.o.Count("triple:chain")
					if cmp(x, z) >= 0 {
						h.o.Violation("cmp:transitivity", fmt.Sprintf("%q < %q < %q but cmp(first,last) = %d", x, y, z, cmp(x, z)))
					}
				}
			}
		}
	}
}

func (h *H) heapCase(keys [][]byte) {
	o := h.o
	hs := make([]string, len(keys))
	for i, k := range keys {
		hs[i] = hx.Hex(k)
	}
	var popped [][]byte
	res := guarded(func() string {
		rh := &oxia.ResultHeap{}
		heap.Init(rh)
		for _, k := range keys {
			heap.Push(rh, oxia.VerifNewResultAndChannel(string(k)))
		}
		var out []string
		for rh.Len() > 0 {
			r := heap.Pop(rh).(*oxia.ResultAndChannel)
			popped = append(popped, []byte(r.VerifKey()))
			out = append(out, hx.Hex([]byte(r.VerifKey())))
		}
		return strings.Join(out, ",")
	})
	o.Case("heap", strings.Join(hs, ","), res, strings.Join(hs, ","))
	if res == "panic" {
		o.Violation("heap:panic", "ResultHeap panicked on "+strings.Join(hs, ","))
		return
	}
	if len(popped) != len(keys) {
		o.Violation("heap:lost-or-duplicated", fmt.Sprintf("pushed %d keys, popped %d", len(keys), len(popped)))
	}
	for i := 1; i < len(popped); i++ {
		if specCompare(popped[i-1], popped[i]) > 0 {
			o.Violation("heap:pop-order-not-sorted", fmt.Sprintf("pushed %s, popped %s", strings.Join(hs, ","), res))
			break
		}
	}
}

func sharedPrefix(a, b []byte) int {
	i := 0
	for i < len(a) && i < len(b) && a[i] == b[i] {
		i++
	}
	return i
}

// ---------------------------------------------------------------- generation

func genKey(r *hx.Rng, maxLen int) []byte {
	n := r.Intn(maxLen + 1)
	k := make([]byte, n)
	for i := range k {
		k[i] = hx.Pick(r, alphabet)
	}
	return k
}

// mutate derives a key close to a: the neighbours of '/' ('.' and '0'), +-1 on a byte, cut, extend, add or drop a slash.
func mutate(r *hx.Rng, a []byte) []byte {
	b := clone(a)
	switch r.Intn(9) {
	case 0:
		return b
	case 1:
		if len(b) > 0 {
			b[r.Intn(len(b))]++
		}
	case 2:
		if len(b) > 0 {
			b[r.Intn(len(b))]--
		}
	case 3:
		if len(b) > 0 {
			b = b[:r.Intn(len(b))]
		}
	case 4:
		b = append(b, hx.Pick(r, alphabet))
	case 5:
		i := r.Intn(len(b) + 1)
		b = append(b[:i], append([]byte{'/'}, b[i:]...)...)
	case 6:
		if i := bytes.IndexByte(b, '/'); i >= 0 {
			b = append(b[:i], b[i+1:]...)
		}
	case 7:
		if len(b) > 0 {
			b[r.Intn(len(b))] = hx.Pick(r, []byte{'.', '/', '0'})
		}
	case 8:
		b = append(b, genKey(r, 4)...)
	}
	return b
}

func genPair(r *hx.Rng) ([]byte, []byte) {
	switch r.Intn(10) {
	case 0, 1, 2:
		return genKey(r, 12), genKey(r, 12)
	case 3, 4, 5:
		a := genKey(r, 12)
		return a, mutate(r, a)
	case 6, 7:
		// long shared prefix (beyond the 8 bytes of the abbreviated key and of SharedPrefixLen's word loop)
		p := genKey(r, 6)
		for len(p) < 8+r.Intn(32) {
			p = append(p, genKey(r, 6)...)
			p = append(p, hx.Pick(r, alphabet))
		}
		return append(clone(p), genKey(r, 5)...), append(clone(p), genKey(r, 5)...)
	case 8:
		a := genKey(r, 12)
		return a, mutate(r, mutate(r, a))
	default:
		// short keys: the full combinatorics of the alphabet at length <= 2
		return genKey(r, 2), genKey(r, 2)
	}
}

func parseKeys(s string) [][]byte {
	var res [][]byte
	if s == "" {
		return res
	}
	for _, p := range strings.Split(s, ",") {
		res = append(res, hx.UnHex(p))
	}
	return res
}

var mode = flag.String("mode", "order", "order: comparator / comparer members / result heap (default) | respbatch: the server's response batcher")

func main() {
	f := hx.ParseFlags()
	o := hx.NewOut(f.OutDir)
	defer o.Close()
	if *mode == "respbatch" {
		mainRespBatch(f, o)
		return
	}
	h := &H{o}
	r := hx.NewRng(f.Seed)

	replay := hx.CorpusLines(f.Corpus)
	if f.Replay != "" {
		replay = hx.ReadLines(f.Replay)
	}
	for _, line := range replay {
		t := strings.Fields(line)
		if len(t) < 2 {
			continue
		}
		switch t[0] {
		case "cmp", "speccmp", "sep", "effsep", "bsep", "beffsep":
			if len(t) >= 4 {
				a, b := hx.UnHex(t[2]), hx.UnHex(t[3])
				h.pair(a, b)
				h.single(a)
				h.single(b)
				o.Count("replayed:pair")
			}
		case "succ", "effsucc", "bsucc", "beffsucc", "abbrev", "immsucc":
			if len(t) >= 3 {
				h.single(hx.UnHex(t[2]))
				o.Count("replayed:single")
			}
		case "heap":
			if len(t) >= 3 {
				h.heapCase(parseKeys(t[2]))
			}
		}
	}
	if f.Replay != "" {
		return
	}

	// the configuration itself
	splitRes := "nil"
	if cmpr.Split != nil {
		splitRes = "set"
	}
	o.Case("split", "-", splitRes, "")

	// exhaustive over the alphabet for lengths 0..2 (133 keys, all ordered pairs)
	var small [][]byte
	small = append(small, []byte{})
	for _, x := range alphabet {
		small = append(small, []byte{x})
		for _, y := range alphabet {
			small = append(small, []byte{x, y})
		}
	}
	for _, a := range small {
		h.single(a)
		for _, b := range small {
			h.pair(a, b)
		}
	}
	o.Count("exhaustive:keys-up-to-length-2")

	for i := 0; i < f.N; i++ {
		a, b := genPair(r)
		h.pair(a, b)
		h.pair(b, a)
		h.single(a)
		if i%2 == 0 {
			c := mutate(r, hx.Pick(r, [][]byte{a, b}))
			if r.Chance(30) {
				c = genKey(r, 12)
			}
			h.triple(a, b, c)
		}
		if i%10 == 0 {
			n := 2 + r.Intn(11)
			keys := make([][]byte, n)
			for j := range keys {
				switch {
				case j > 0 && r.Chance(40):
					keys[j] = mutate(r, keys[r.Intn(j)])
				default:
					keys[j] = genKey(r, 8)
				}
			}
			h.heapCase(keys)
		}
	}
}
