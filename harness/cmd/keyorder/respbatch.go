// -mode respbatch (C11, order preservation between the engine's sorted iterator and the client): drives the real
// concurrent.NewBatchStreamOnce — the batcher of the public RPC server's Read / List / RangeScan answers
// (server/public_rpc_server.go: maxBatchCount 0, budget 2 MiB, size = proto size) — with generated item-size sequences
// around the budget.  Observable = the partition of the input into flushed messages (items by index), compared with
// the extracted batch_stream; verdicts on the Go object directly:
//
//	respbatch:order-or-content-changed   concatenation of the messages != the input (a prefix of it when completed with an error)
//	respbatch:empty-batch                an empty message was flushed
//	respbatch:complete-not-exactly-once  onComplete not called exactly once over OnComplete, OnComplete
//	respbatch:error-not-propagated       OnComplete(err) did not hand err to onComplete
//
// A message above the budget is NOT a verdict: the unchanged code flushes the item that reaches the budget together
// with the pending ones (proved: a message exceeds the budget by less than its last item); such messages are counted.
package main

import (
	"errors"
	"fmt"
	"strconv"
	"strings"

	"github.com/oxia-db/oxia/common/concurrent"

	"verif/harness/internal/hx"
)

type rbItem struct{ idx, size int }

func runRespBatch(o *hx.Out, maxCount, budget int, sizes []int, fail bool) {
	var batches [][]rbItem
	completes := 0
	var completeErr error
	boom := errors.New("stream failed")
	panicked := false
	func() {
		defer func() {
			if r := recover(); r != nil {
				panicked = true
			}
		}()
		b := concurrent.NewBatchStreamOnce[rbItem](maxCount, budget,
			func(t rbItem) int { return t.size },
			func(c []rbItem) error {
				batches = append(batches, append([]rbItem(nil), c...)) // the container is reused by the batcher
				return nil
			},
			func(err error) { completes++; completeErr = err })
		for i, s := range sizes {
			if err := b.OnNext(rbItem{i, s}); err != nil {
				return
			}
		}
		if fail {
			b.OnComplete(boom)
		} else {
			b.OnComplete(nil)
		}
		b.OnComplete(nil) // a second completion is ignored
	}()
	ss := make([]string, len(sizes))
	for i, s := range sizes {
		ss[i] = strconv.Itoa(s)
	}
	in := fmt.Sprintf("%d %d %s %d", maxCount, budget, strings.Join(ss, ","), map[bool]int{false: 0, true: 1}[fail])
	if len(sizes) == 0 {
		in = fmt.Sprintf("%d %d - %d", maxCount, budget, map[bool]int{false: 0, true: 1}[fail])
	}
	var parts []string
	var flat []int
	for _, b := range batches {
		is := make([]string, len(b))
		sum := 0
		for i, it := range b {
			is[i] = strconv.Itoa(it.idx)
			flat = append(flat, it.idx)
			sum += it.size
		}
		parts = append(parts, strings.Join(is, ","))
		if len(b) == 0 {
			o.Violation("respbatch:empty-batch", fmt.Sprintf("maxCount=%d budget=%d sizes=%s: an empty message was flushed", maxCount, budget, short(strings.Join(ss, ","))))
		}
		if sum > budget && len(b) > 1 {
			o.Count("observation:message-over-budget(with pending items)")
		} else if sum > budget {
			o.Count("observation:message-over-budget(single item)")
		}
	}
	res := strings.Join(parts, "|")
	if len(batches) == 0 {
		res = "-"
	}
	if panicked {
		res = "panic"
		o.Violation("respbatch:panic", "BatchStreamOnce panicked on "+short(in))
	}
	nt := ""
	for _, s := range sizes {
		if s >= budget {
			nt = in
		}
	}
	o.Case("respbatch", in, res, nt)
	if panicked {
		return
	}
	// order and multiplicity
	ok := len(flat) <= len(sizes) && (fail || len(flat) == len(sizes))
	for i := range flat {
		if i < len(sizes) && flat[i] != i {
			ok = false
		}
	}
	if !ok {
		o.Violation("respbatch:order-or-content-changed", fmt.Sprintf(
			"maxCount=%d budget=%d item sizes [%s] (OnComplete(err)=%v): the flushed messages are %s (items by position in the input), not the input order 0..%d",
			maxCount, budget, short(strings.Join(ss, ",")), fail, short(res), len(sizes)-1))
	}
	if completes != 1 {
		o.Violation("respbatch:complete-not-exactly-once", fmt.Sprintf("onComplete called %d times for %s", completes, short(in)))
	}
	if fail && completeErr != boom || !fail && completeErr != nil {
		o.Violation("respbatch:error-not-propagated", fmt.Sprintf("onComplete got %v for %s", completeErr, short(in)))
	}
}

func short(s string) string {
	if len(s) > 240 {
		return s[:240] + "..."
	}
	return s
}

func genSizes(r *hx.Rng, budget int) []int {
	around := []int{0, 1, budget - 1, budget, budget + 1, 2 * budget, budget / 2, budget/2 + 1, 3}
	small := func() int { return r.Intn(budget/4 + 2) }
	pick := func() int {
		v := hx.Pick(r, around)
		if v < 0 {
			v = 0
		}
		return v
	}
	n := r.Intn(24)
	var s []int
	switch r.Intn(8) {
	case 0: // several large ones in a row
		for i := 0; i < n; i++ {
			s = append(s, budget+r.Intn(3)-1)
		}
	case 1: // large after small
		for i := r.Intn(5) + 1; i > 0; i-- {
			s = append(s, small())
		}
		s = append(s, budget+r.Intn(2))
		for i := r.Intn(4); i > 0; i-- {
			s = append(s, small())
		}
	case 2: // small after large
		s = append(s, budget+r.Intn(2))
		for i := r.Intn(6) + 1; i > 0; i-- {
			s = append(s, small())
		}
		s = append(s, budget)
	case 3: // exactly filling
		left := budget
		for left > 0 {
			x := 1 + r.Intn(left)
			s = append(s, x)
			left -= x
		}
		s = append(s, small(), small())
	case 4: // only small ones
		for i := 0; i < n; i++ {
			s = append(s, small())
		}
	default:
		for i := 0; i < n; i++ {
			if r.Chance(50) {
				s = append(s, pick())
			} else {
				s = append(s, small())
			}
		}
	}
	return s
}

func parseSizes(s string) []int {
	var res []int
	if s == "-" || s == "" {
		return res
	}
	for _, p := range strings.Split(s, ",") {
		v, _ := strconv.Atoi(p)
		res = append(res, v)
	}
	return res
}

func mainRespBatch(f hx.Flags, o *hx.Out) {
	r := hx.NewRng(f.Seed ^ 0xba7c)
	replay := hx.CorpusLines(f.Corpus)
	if f.Replay != "" {
		replay = hx.ReadLines(f.Replay)
	}
	for _, line := range replay {
		t := strings.Fields(line)
		if len(t) == 6 && t[0] == "respbatch" {
			mc, _ := strconv.Atoi(t[2])
			b, _ := strconv.Atoi(t[3])
			runRespBatch(o, mc, b, parseSizes(t[4]), t[5] == "1")
		}
	}
	if f.Replay != "" {
		return
	}
	budgets := []int{1, 2, 5, 10, 64, 1000, 2 << 20}
	// every sequence of length <= 4 over {0, 1, B-1, B, B+1} for B = 4, unlimited count
	vals := []int{0, 1, 3, 4, 5}
	var rec func(prefix []int)
	rec = func(prefix []int) {
		runRespBatch(o, 0, 4, prefix, false)
		if len(prefix) == 4 {
			return
		}
		for _, v := range vals {
			rec(append(append([]int(nil), prefix...), v))
		}
	}
	rec(nil)
	o.Count("exhaustive:sizes{0,1,B-1,B,B+1}^<=4,B=4")
	for i := 0; i < f.N; i++ {
		b := hx.Pick(r, budgets)
		mc := 0
		if r.Chance(25) {
			mc = 1 + r.Intn(5)
		}
		runRespBatch(o, mc, b, genSizes(r, b), r.Chance(10))
	}
}
