// harness quorum: drives the real server.QuorumAckTracker (NewQuorumAckTracker, NextOffset,
// AdvanceHeadOffset, WaitForCommitOffsetAsync, NewCursorAcker, CursorAcker.Ack, Close) with generated
// call sequences and writes, per call, the observable (commit, head, result, callbacks fired in order)
// for the Coq model Oxia.Quorum.Model to compare.  The specification (commit monotone, <= head,
// <= / == true commit offset computed here from the delivered acks, waiters released in order) is
// evaluated directly on the implementation's observables.
package main

import (
	"context"
	"fmt"
	"runtime"
	"sort"
	"strconv"
	"strings"
	"time"

	"github.com/oxia-db/oxia/server"

	"verif/harness/internal/hx"
)

type cb struct {
	id  int
	log *[]string
}

func (c *cb) OnComplete(_ any)        { *c.log = append(*c.log, fmt.Sprintf("%d+", c.id)) }
func (c *cb) OnCompleteError(_ error) { *c.log = append(*c.log, fmt.Sprintf("%d!", c.id)) }

type opT struct {
	kind byte // N H W V C A X P  (P<o>:<id> = a waiter parks in WaitForHeadOffset(o))   (V = W issued with an already cancelled context: the tracker must treat it as W)
	a, b int64
}

func (o opT) String() string {
	switch o.kind {
	case 'N', 'X':
		return string(o.kind)
	case 'H', 'C':
		return fmt.Sprintf("%c%d", o.kind, o.a)
	default:
		return fmt.Sprintf("%c%d:%d", o.kind, o.a, o.b)
	}
}

func parseOps(s string) []opT {
	if s == "-" {
		return nil
	}
	var res []opT
	for _, t := range strings.Split(s, ";") {
		o := opT{kind: t[0]}
		rest := t[1:]
		if i := strings.IndexByte(rest, ':'); i >= 0 {
			o.a, _ = strconv.ParseInt(rest[:i], 10, 64)
			o.b, _ = strconv.ParseInt(rest[i+1:], 10, 64)
		} else if rest != "" {
			o.a, _ = strconv.ParseInt(rest, 10, 64)
		}
		res = append(res, o)
	}
	return res
}

type caseT struct {
	rf           uint32
	head, commit int64
	ops          []opT
	wf           bool // the sequence obeys the admissibility discipline of Model.grun
	tag          string
}

func (c caseT) input() string {
	ss := make([]string, len(c.ops))
	for i, o := range c.ops {
		ss[i] = o.String()
	}
	ops := "-"
	if len(ss) > 0 {
		ops = strings.Join(ss, ";")
	}
	return fmt.Sprintf("%d %d %d %s", c.rf, c.head, c.commit, ops)
}

// spec-side bookkeeping, independent of the model
type specT struct {
	c0      int64
	hi      []int64 // per cursor: highest acknowledged offset
	waiters []struct {
		off int64
		id  int
	}
	fired map[int]int
}

func (s *specT) trueCommit(head int64, required int) int64 {
	t := s.c0
	for o := s.c0 + 1; o <= head; o++ {
		n := 0
		for _, h := range s.hi {
			if h >= o {
				n++
			}
		}
		if n < required {
			break
		}
		t = o
	}
	return t
}

var cancelledCtx = func() context.Context {
	ctx, cancel := context.WithCancel(context.Background())
	cancel()
	return ctx
}()

const callTimeout = 3 * time.Second

// once a head waiter was found not woken (already a verdict) the later ones are waited for only briefly
var headWakeBroken bool

func wakeTimeout() time.Duration {
	if headWakeBroken {
		return 500 * time.Microsecond
	}
	return callTimeout / 3
}

func runCase(o *hx.Out, c caseT) {
	var fired []string
	q := server.NewQuorumAckTracker(c.rf, c.head, c.commit)
	var cursors []server.CursorAcker
	sp := &specT{c0: c.commit, fired: map[int]int{}}
	required := int(c.rf / 2)
	closed := false
	var obs []string
	prevCommit := q.CommitOffset()
	// head waiters (the follower cursors park in WaitForHeadOffset): one goroutine each, released at the end of the case
	type parkedT struct {
		off  int64
		id   int
		done chan struct{}
		seen bool
	}
	var parked []*parkedT
	parkCtx, parkCancel := context.WithCancel(context.Background())
	defer parkCancel()
	// an ack through a cursor that was never created cannot be issued: such ops are dropped from the case
	var eff []opT
	for _, op := range c.ops {
		if op.kind == 'A' && (op.a < 0 || int(op.a) >= len(cursors)) {
			o.Count("dropped:ack-without-cursor")
			continue
		}
		eff = append(eff, op)
		i := len(eff) - 1
		fired = fired[:0]
		res := "-"
		done := make(chan struct{})
		go func() {
			defer close(done)
			defer func() {
				if r := recover(); r != nil {
					res = "panic"
				}
			}()
			switch op.kind {
			case 'N':
				res = fmt.Sprintf("n%d", q.NextOffset())
			case 'H':
				q.AdvanceHeadOffset(op.a)
			case 'W', 'V':
				ctx := context.Background()
				if op.kind == 'V' {
					ctx = cancelledCtx
				}
				q.WaitForCommitOffsetAsync(ctx, op.a, &cb{id: int(op.b), log: &fired})
				sp.waiters = append(sp.waiters, struct {
					off int64
					id  int
				}{op.a, int(op.b)})
			case 'C':
				ca, err := q.NewCursorAcker(op.a)
				switch {
				case err == server.ErrTooManyCursors:
					res = "e:toomany"
				case err == server.ErrInvalidHeadOffset:
					res = "e:invalidhead"
				case err != nil:
					res = "e:other"
				default:
					res = fmt.Sprintf("c%d", len(cursors))
					cursors = append(cursors, ca)
					sp.hi = append(sp.hi, op.a)
				}
			case 'A':
				if op.b > sp.hi[op.a] {
					sp.hi[op.a] = op.b
				}
				cursors[op.a].Ack(op.b)
			case 'X':
				_ = q.Close()
				closed = true
			case 'P':
				pw := &parkedT{off: op.a, id: int(op.b), done: make(chan struct{})}
				parked = append(parked, pw)
				go func() {
					defer close(pw.done)
					_ = q.WaitForHeadOffset(parkCtx, pw.off)
				}()
				for y := 0; y < 4; y++ {
					runtime.Gosched() // let the waiter reach its wait before the next call
				}
			}
		}()
		select {
		case <-done:
		case <-time.After(callTimeout):
			// the call never returned (a lock left held by an earlier call, a callback that waits): the case is abandoned
			in := caseT{rf: c.rf, head: c.head, commit: c.commit, ops: eff}.input()
			o.Violation("tracker:call-blocked", fmt.Sprintf("case {%s}: its last op (#%d %s) did not return within %v", in, i, op, callTimeout))
			o.Count("seq:abandoned(call blocked)")
			o.Case("seq", in, strings.Join(append(obs, "blocked"), ";"), in)
			return
		}
		commit, head := q.CommitOffset(), q.HeadOffset()
		f := "-"
		if len(fired) > 0 {
			f = strings.Join(fired, ".")
		}
		for _, x := range fired {
			id, _ := strconv.Atoi(x[:len(x)-1])
			sp.fired[id]++
		}
		where := fmt.Sprintf("case {%s} after its last op (#%d %s): commit=%d head=%d",
			caseT{rf: c.rf, head: c.head, commit: c.commit, ops: eff}.input(), i, op, commit, head)
		// head waiters: those whose offset the head has reached (all, once closed) must return - they are waited
		// for (bounded); the others must still be parked
		var woken []int
		for _, pw := range parked {
			if pw.seen {
				continue
			}
			if closed || pw.off <= head {
				select {
				case <-pw.done:
					pw.seen = true
					woken = append(woken, pw.id)
				case <-time.After(wakeTimeout()):
					headWakeBroken = true
					o.Violation("tracker:head-waiter-not-woken", fmt.Sprintf("%s: waiter %d parked in WaitForHeadOffset(%d) has not returned %v after the head offset reached %d",
						where, pw.id, pw.off, callTimeout/3, head))
					pw.seen = true // reported once
				}
			} else {
				select {
				case <-pw.done:
					pw.seen = true
					woken = append(woken, pw.id)
					o.Violation("tracker:head-waiter-returned-early", fmt.Sprintf("%s: waiter %d for offset %d returned", where, pw.id, pw.off))
				default:
				}
			}
		}
		sort.Ints(woken)
		wk := "-"
		if len(woken) > 0 {
			ss := make([]string, len(woken))
			for j, x := range woken {
				ss[j] = strconv.Itoa(x)
			}
			wk = strings.Join(ss, ".")
		}
		obs = append(obs, fmt.Sprintf("%d,%d,%s,%s,%s", commit, head, res, f, wk))

		if !closed {
			for _, x := range fired {
				if strings.HasSuffix(x, "!") {
					o.Violation("tracker:waiter-failed-while-open", fmt.Sprintf("%s: callback %s got an error although the tracker is not closed (the closure that applies the entry will never run)", where, x))
				}
			}
		}
		if commit < prevCommit {
			o.Violation("tracker:commit-regressed", fmt.Sprintf("%s (was %d)", where, prevCommit))
		}
		if commit > head {
			o.Violation("tracker:commit-above-head", where)
		}
		if c.wf && res != "panic" {
			tc := sp.trueCommit(head, required)
			if commit > tc {
				o.Violation("tracker:commit-above-quorum", fmt.Sprintf("%s true commit=%d acks=%v", where, tc, sp.hi))
			}
			if commit < tc && c.rf >= 1 && c.rf <= 17 && (c.rf >= 2 || c.commit == c.head) {
				o.Violation("tracker:commit-lags-quorum", fmt.Sprintf("%s true commit=%d acks=%v (a delivered ack was lost)", where, tc, sp.hi))
			}
			if !closed && required > 0 {
				for _, w := range sp.waiters {
					if w.off <= commit && sp.fired[w.id] == 0 {
						o.Violation("tracker:waiter-not-released", fmt.Sprintf("%s waiter %d for offset %d", where, w.id, w.off))
					}
				}
			}
		}
		prevCommit = commit
	}
	c.ops = eff
	if c.wf {
		o.Count("seq:admissible")
	} else {
		o.Count("seq:arbitrary")
	}
	o.Count("rf:" + strconv.Itoa(int(c.rf)))
	o.Count("tag:" + c.tag)
	r := "-"
	if len(obs) > 0 {
		r = strings.Join(obs, ";")
	}
	o.Case("seq", c.input(), r, c.input())
}

// ---------------------------------------------------------------- generators

// admissible: a leader-like history. Offsets are allocated, synced (acks become possible), the head is
// advanced one by one behind the synced offset, followers ack in order with duplicates, re-sends after a
// re-attach and acks that overtake the head advance (the O-8 window).
func genAdmissible(r *hx.Rng, n int) caseT {
	rfs := []uint32{1, 2, 3, 3, 3, 4, 5, 5, 7, 9, 16, 17}
	rf := hx.Pick(r, rfs)
	head := int64(r.Intn(8)) - 1
	commit := head
	if rf >= 2 && r.Chance(50) {
		commit = head - int64(r.Intn(4))
		if commit < -1 {
			commit = -1
		}
	}
	c := caseT{rf: rf, head: head, commit: commit, wf: true, tag: "admissible"}
	next, synced, hd := head, head, head
	var hi []int64
	waitID := 0
	waited := head
	add := func(o opT) { c.ops = append(c.ops, o) }
	for len(c.ops) < n {
		k := r.Intn(100)
		switch {
		case k < 18: // write allocates
			next++
			add(opT{kind: 'N'})
		case k < 30 && synced < next: // wal sync completes (no tracker call), acks become possible
			synced += 1 + int64(r.Intn(int(next-synced)))
		case k < 48 && hd < synced: // sync callback: advance head by one, then register the waiter
			hd++
			add(opT{kind: 'H', a: hd})
			if r.Chance(85) {
				waitID++
				waited = hd
				add(opT{kind: waitKind(r), a: hd, b: int64(waitID)})
			}
		case k < 58 && uint32(len(hi)) < rf+1: // attach a follower (sometimes one too many)
			a := hd - int64(r.Intn(5))
			if r.Chance(10) {
				a = hd + 1 + int64(r.Intn(2)) // invalid head offset
			}
			if a < -1 {
				a = -1
			}
			add(opT{kind: 'C', a: a})
			if a <= hd && uint32(len(hi)) < rf-1 {
				hi = append(hi, a)
			}
		case k < 92 && len(hi) > 0: // follower ack
			f := r.Intn(len(hi))
			var o int64
			switch {
			case r.Chance(70):
				o = hi[f] + 1
			case r.Chance(50):
				o = hi[f] - int64(r.Intn(3)) // duplicate / re-send
			default:
				o = hi[f]
			}
			if o > synced { // a follower cannot ack what was not sent
				o = hi[f]
			}
			if o < 0 {
				o = 0
			}
			if o > hi[f]+1 {
				o = hi[f] + 1
			}
			if o > hi[f] {
				hi[f] = o
			}
			add(opT{kind: 'A', a: int64(f), b: o})
		case k < 94 && r.Chance(30): // head advance replayed
			add(opT{kind: 'H', a: hd - int64(r.Intn(2))})
		case k < 95 && r.Chance(50): // a cursor that has sent everything parks until the head moves
			waitID++
			add(opT{kind: 'P', a: hd + int64(r.Intn(3)), b: int64(1000 + waitID)})
		case k < 96: // an already satisfied / repeated wait, in order
			waitID++
			add(opT{kind: 'W', a: waited, b: int64(waitID)})
		case k == 99 && r.Chance(20):
			add(opT{kind: 'X'})
			// after Close the head does not move any more (AdvanceHeadOffset returns early): stop here
			return c
		}
	}
	return c
}

// the O-8 window, densely: every ack of one follower races ahead of the head advance
func genEarlyAcks(r *hx.Rng, n int) caseT {
	rf := hx.Pick(r, []uint32{2, 3, 3, 4, 5, 5, 6, 7, 7})
	head := int64(r.Intn(4))
	c := caseT{rf: rf, head: head, commit: head, wf: true, tag: "early-acks"}
	nf := int(rf) - 1
	for i := 0; i < nf; i++ {
		c.ops = append(c.ops, opT{kind: 'C', a: head})
	}
	hi := make([]int64, nf)
	for i := range hi {
		hi[i] = head
	}
	hd := head
	id := 0
	for len(c.ops) < n {
		o := hd + 1
		c.ops = append(c.ops, opT{kind: 'N'})
		// the cursors that are not ahead are parked waiting for this entry
		for j := r.Intn(3); j > 0; j-- {
			id++
			c.ops = append(c.ops, opT{kind: 'P', a: o + int64(r.Intn(2)), b: int64(1000 + id)})
		}
		early := r.Intn(nf + 1)
		if req := int(rf / 2); req >= 2 && r.Chance(60) {
			early = 1 + r.Intn(req-1) // fewer early acks than the quorum
		}
		perm := r.Intn(nf)
		for j := 0; j < early; j++ {
			f := (perm + j) % nf
			for hi[f] < o {
				hi[f]++
				c.ops = append(c.ops, opT{kind: 'A', a: int64(f), b: hi[f]})
			}
		}
		hd = o
		id++
		c.ops = append(c.ops, opT{kind: 'H', a: hd}, opT{kind: waitKind(r), a: hd, b: int64(id)})
		late := r.Intn(nf + 1)
		for j := 0; j < late; j++ {
			f := r.Intn(nf)
			if hi[f] < o {
				hi[f]++
			}
			c.ops = append(c.ops, opT{kind: 'A', a: int64(f), b: hi[f]})
		}
	}
	return c
}

// arbitrary call sequences: skipped offsets, head jumps, acks far above the head, unsorted waits,
// calls after Close, rf 0 and rf > 17 (BitSet overflow)
func genArbitrary(r *hx.Rng, n int) caseT {
	rfs := []uint32{0, 1, 2, 3, 4, 5, 6, 17, 18, 19, 20, 24}
	rf := hx.Pick(r, rfs)
	head := int64(r.Intn(10)) - 1
	commit := head - int64(r.Intn(5))
	if commit < -1 {
		commit = -1
	}
	c := caseT{rf: rf, head: head, commit: commit, wf: false, tag: "arbitrary"}
	ncur := 0
	id := 0
	for len(c.ops) < n {
		k := r.Intn(100)
		switch {
		case k < 10:
			c.ops = append(c.ops, opT{kind: 'N'})
		case k < 25:
			c.ops = append(c.ops, opT{kind: 'H', a: head + int64(r.Intn(4)) - 1})
			if x := c.ops[len(c.ops)-1].a; x > head {
				head = x
			}
		case k < 35:
			id++
			c.ops = append(c.ops, opT{kind: waitKind(r), a: head + int64(r.Intn(6)) - 3, b: int64(id)})
		case k < 50:
			a := head + int64(r.Intn(8)) - 6
			if a < -1 {
				a = -1
			}
			c.ops = append(c.ops, opT{kind: 'C', a: a})
			ncur++
		case k < 97 && ncur > 0:
			c.ops = append(c.ops, opT{kind: 'A', a: int64(r.Intn(ncur)), b: head + int64(r.Intn(8)) - 4})
		case k >= 98:
			c.ops = append(c.ops, opT{kind: 'X'})
		case k == 97:
			id++
			c.ops = append(c.ops, opT{kind: 'P', a: head + int64(r.Intn(4)) - 1, b: int64(1000 + id)})
		}
	}
	return c
}

func waitKind(r *hx.Rng) byte {
	if r.Chance(25) {
		return 'V'
	}
	return 'W'
}

func parseCaseLine(l string) (caseT, bool) {
	// seq [id] rf head commit ops   (the id is optional: corpus files omit it, replay lines carry it)
	f := strings.Fields(l)
	if len(f) < 5 || f[0] != "seq" {
		return caseT{}, false
	}
	if len(f) == 6 {
		f = append(f[:1], f[2:]...)
	}
	rf, _ := strconv.ParseUint(f[1], 10, 32)
	h, _ := strconv.ParseInt(f[2], 10, 64)
	c, _ := strconv.ParseInt(f[3], 10, 64)
	return caseT{rf: uint32(rf), head: h, commit: c, ops: parseOps(f[4]), wf: false, tag: "replay"}, true
}

func main() {
	fl := hx.ParseFlags()
	o := hx.NewOut(fl.OutDir)
	defer o.Close()
	run := func(lines []string, tag string) {
		for _, l := range lines {
			wf := strings.HasPrefix(l, "wf ")
			l = strings.TrimPrefix(l, "wf ")
			if c, ok := parseCaseLine(l); ok {
				c.wf = wf
				c.tag = tag
				runCase(o, c)
			}
		}
	}
	run(hx.CorpusLines(fl.Corpus), "corpus")
	if fl.Replay != "" {
		run(hx.ReadLines(fl.Replay), "replay")
		return
	}
	r := hx.NewRng(fl.Seed)
	for i := 0; i < fl.N; i++ {
		n := 5 + r.Intn(60)
		switch i % 5 {
		case 0, 1:
			runCase(o, genAdmissible(r.Fork(), n))
		case 2:
			runCase(o, genEarlyAcks(r.Fork(), n))
		default:
			runCase(o, genArbitrary(r.Fork(), n))
		}
	}
}
