// harness pipeline: concurrent writers on a REAL server.LeaderController (real WAL on a scratch
// directory, real in-memory Pebble DB, rf = 1 or in-process follower streams that acknowledge).
// The wal.Factory / wal.Wal interfaces are wrapped with gates owned by this harness so that the
// interleavings the property names are forced instead of hoped for:
//   o1-gate     a writer is held inside wal.AppendAndSync until another writer has handed ITS entry to
//               the WAL (possible only if offset allocation and append are not atomic: O-1)
//   early-ack   the follower's ack of offset X is delivered before the sync callback of X advances the
//               head offset (O-8 window)
//   ctx-cancel  the caller's context of a write is cancelled at each stage of the pipeline (before admission,
//               inside the WAL sync callback before the head advances, after the sync before any follower
//               acked, after the quorum) for rf 1..5: an entry that is in the WAL and committed must be
//               applied on the leader, in offset order, whatever became of its caller
//   roll        small WAL segments and padded values: every scenario of this kind crosses several segment
//               boundaries (where the WAL calls back into the controller: CommitOffsetProvider) while writes
//               are in flight; with rf <= 2 a trimmer round (wal.VerifDoTrim, retention 1 ms) runs every
//               millisecond as well
//   ack-before-send-returns  the follower's ack of entry N is delivered to the leader AND processed by it before the
//               cursor's stream.Send(N) returns (a very fast follower / a descheduled sender); sequential writer,
//               leader + that follower are the quorum, so nothing heals a lost ack
//   stream-break  the REAL follower cursor behind a replication stream that breaks inside the term with messages
//               in flight (the last k pushed entries lost, or delivered but their acks lost), for rf 2,3,5 with
//               the broken follower needed for the quorum.  The peer keeps its log across streams and behaves
//               like the follower controller (refuses a non-contiguous append by failing the stream, acks a
//               duplicate by offset).  After the cursor's own retry the un-acked window must be re-sent.
//   apply-gate  the application of offset n is held inside the KV layer (batch.Commit) while another
//               follower's ack for n+1 is delivered: n+1 must be observed WAITING (the tracker applies the
//               released requests one after the other under its mutex)
// Every call into the controller (Write, Read, GetStatus, Close, offset getters) and into the WAL runs under a
// watchdog: a call that does not return is the verdict pipeline:controller-call-blocked, never a hang.
// There is no model for this leg; the specification is evaluated directly on what the leader did:
// every write succeeds, responses carry the caller's own entry, offsets are distinct, the WAL is
// contiguous, effects are applied in offset order, commit is monotone and never above head.
package main

import (
	"context"
	"errors"
	"fmt"
	"os"
	"sort"
	"strings"
	"sync"
	"sync/atomic"
	"time"

	"google.golang.org/grpc/codes"
	"google.golang.org/grpc/metadata"
	"google.golang.org/grpc/status"

	"github.com/oxia-db/oxia/common/concurrent"
	"github.com/oxia-db/oxia/common/entity"
	"github.com/oxia-db/oxia/proto"
	"github.com/oxia-db/oxia/server"
	"github.com/oxia-db/oxia/server/kv"
	"github.com/oxia-db/oxia/server/wal"

	"verif/harness/internal/hx"
	"verif/harness/internal/kvsafe"
)

const gateTimeout = 150 * time.Millisecond
const stuckTimeout = 3 * time.Second

// ---------------------------------------------------------------- gated WAL

type gates struct {
	mu sync.Mutex
	// o1: offsets at which the appending writer is held until another append has gone through
	holdAt     map[int64]bool
	appendsOut int // number of AppendAndSync calls that returned
	appendCh   chan struct{}
	forced     int32 // holds released because another writer really got through
	timedOut   int32
	// early-ack: offset whose sync callback is held until the follower's ack of it was processed
	cbHold    int64
	cbEntered chan struct{}
	ackDone   chan struct{}
	cbForced  int32
	// ctx-cancel: run by the wrapped sync callback of the next appended entry, right before the real callback
	cbCancel func()
	// apply-gate: the batch that puts holdKey is held in Commit; a Commit of the batch that puts watchKey is reported
	holdKey        string
	watchKey       string
	holdEntered    chan struct{}
	holdRelease    chan struct{}
	watchAttempted chan struct{}
	onceEntered    sync.Once
	onceWatch      sync.Once
}

func newGates() *gates {
	return &gates{holdAt: map[int64]bool{}, appendCh: make(chan struct{}, 1<<16), cbHold: -1,
		cbEntered: make(chan struct{}), ackDone: make(chan struct{}),
		holdEntered: make(chan struct{}), holdRelease: make(chan struct{}), watchAttempted: make(chan struct{})}
}

// ---------------------------------------------------------------- gated KV

type gateKVFactory struct {
	kv.Factory
	g *gates
}

func (f *gateKVFactory) NewKV(ns string, shard int64) (kv.KV, error) {
	k, err := f.Factory.NewKV(ns, shard)
	if err != nil {
		return nil, err
	}
	return &gateKV{KV: k, g: f.g}, nil
}

type gateKV struct {
	kv.KV
	g *gates
}

func (k *gateKV) NewWriteBatch() kv.WriteBatch {
	return &gateBatch{WriteBatch: k.KV.NewWriteBatch(), g: k.g}
}

type gateBatch struct {
	kv.WriteBatch
	g           *gates
	hold, watch bool
}

func (b *gateBatch) Put(key string, value []byte) error {
	if b.g.holdKey != "" && key == b.g.holdKey {
		b.hold = true
	}
	if b.g.watchKey != "" && key == b.g.watchKey {
		b.watch = true
	}
	return b.WriteBatch.Put(key, value)
}

func (b *gateBatch) Commit() error {
	if b.watch {
		b.g.onceWatch.Do(func() { close(b.g.watchAttempted) })
	}
	if b.hold {
		b.g.onceEntered.Do(func() { close(b.g.holdEntered) })
		select {
		case <-b.g.holdRelease:
		case <-time.After(5 * time.Second):
		}
	}
	return b.WriteBatch.Commit()
}

type gateFactory struct {
	inner wal.Factory
	g     *gates
	w     *gateWal
}

func (f *gateFactory) NewWal(ns string, shard int64, p wal.CommitOffsetProvider) (wal.Wal, error) {
	w, err := f.inner.NewWal(ns, shard, p)
	if err != nil {
		return nil, err
	}
	f.w = &gateWal{Wal: w, g: f.g}
	return f.w, nil
}
func (f *gateFactory) Close() error { return f.inner.Close() }

type gateWal struct {
	wal.Wal
	g *gates
}

func (w *gateWal) AppendAndSync(entry *proto.LogEntry, callback func(err error)) {
	g := w.g
	off := entry.Offset
	g.mu.Lock()
	hold := g.holdAt[off]
	seen := g.appendsOut
	g.mu.Unlock()
	if hold {
		// held between "offset allocated" and "entry appended": wait for somebody else's append
		deadline := time.After(gateTimeout)
	loop:
		for {
			g.mu.Lock()
			moved := g.appendsOut > seen
			g.mu.Unlock()
			if moved {
				atomic.AddInt32(&g.forced, 1)
				break
			}
			select {
			case <-g.appendCh:
			case <-deadline:
				atomic.AddInt32(&g.timedOut, 1)
				break loop
			}
		}
	}
	cb := callback
	g.mu.Lock()
	cancelInCb := g.cbCancel
	g.cbCancel = nil
	g.mu.Unlock()
	if cancelInCb != nil {
		cb = func(err error) {
			cancelInCb()
			callback(err)
		}
	}
	if off == g.cbHold {
		cb = func(err error) {
			close(g.cbEntered)
			select {
			case <-g.ackDone:
				atomic.AddInt32(&g.cbForced, 1)
			case <-time.After(2 * time.Second):
			}
			callback(err)
		}
	}
	w.Wal.AppendAndSync(entry, cb)
	g.mu.Lock()
	g.appendsOut++
	g.mu.Unlock()
	select {
	case g.appendCh <- struct{}{}:
	default:
	}
}

// ---------------------------------------------------------------- in-process followers

type follower struct {
	name     string
	acks     chan *proto.Ack
	ctx      context.Context
	opened   chan struct{}
	openOnce sync.Once
	g        *gates
	manual   bool  // acks are handed out by the scenario (ack), not automatically
	ackFirst bool  // the ack is delivered and its processing awaited before Send returns
	procCh   chan int64 // offsets whose ack the leader has finished processing (Recv called again)
	settled  int32 // acks whose processing was seen before Send returned
	sendHold int64 // Send of this offset is held until the gated callback has been entered
	lastOut  int64 // last ack handed to the leader by Recv
	received []int64
	mu       sync.Mutex
}

func (f *follower) Send(a *proto.Append) error {
	off := a.Entry.Offset
	if f.sendHold >= 0 && off == f.sendHold {
		select {
		case <-f.g.cbEntered:
		case <-time.After(2 * time.Second):
		}
	}
	f.mu.Lock()
	f.received = append(f.received, off)
	f.mu.Unlock()
	if !f.manual {
		f.acks <- &proto.Ack{Offset: off}
	}
	if f.ackFirst && !f.manual {
		deadline := time.After(gateTimeout)
	settle:
		for {
			select {
			case done := <-f.procCh:
				if done >= off {
					atomic.AddInt32(&f.settled, 1)
					break settle
				}
			case <-deadline:
				break settle
			case <-f.ctx.Done():
				break settle
			}
		}
	}
	return nil
}

func (f *follower) ack(off int64) { f.acks <- &proto.Ack{Offset: off} }

func (f *follower) hasReceived(off int64) bool {
	f.mu.Lock()
	defer f.mu.Unlock()
	return int64(len(f.received)) > off
}

func waitFor(cond func() bool, d time.Duration) bool {
	deadline := time.Now().Add(d)
	for !cond() {
		if time.Now().After(deadline) {
			return false
		}
		time.Sleep(200 * time.Microsecond)
	}
	return true
}

func (f *follower) Recv() (*proto.Ack, error) {
	// the previous ack has been processed by the leader when Recv is called again
	if f.lastOut >= 0 && f.lastOut == f.g.cbHold {
		select {
		case <-f.g.ackDone:
		default:
			close(f.g.ackDone)
		}
	}
	if f.ackFirst && f.lastOut >= 0 {
		select {
		case f.procCh <- f.lastOut:
		default:
		}
	}
	select {
	case a := <-f.acks:
		f.lastOut = a.Offset
		return a, nil
	case <-f.ctx.Done():
		return nil, f.ctx.Err()
	}
}
func (f *follower) Header() (metadata.MD, error) { return nil, nil }
func (f *follower) Trailer() metadata.MD         { return nil }
func (f *follower) CloseSend() error             { return nil }
func (f *follower) Context() context.Context     { return f.ctx }
func (f *follower) SendMsg(any) error            { return nil }
func (f *follower) RecvMsg(any) error            { return nil }

// pfollower is a follower that outlives its replication streams: its log persists, a non-contiguous append is
// refused (the stream fails, as follower_controller does), an entry it already holds is acknowledged again.
type pfollower struct {
	mu        sync.Mutex
	log       []int64
	streams   int // GetReplicateStream calls
	cur       *pstream
	blackhole int  // the next N entries pushed on the current stream are in flight when the stream breaks ...
	dropAcks  bool // ... false: they never arrive; true: they arrive, their acks are lost
	inFlight  int
	refused   int
}

type pstream struct {
	f      *pfollower
	ctx    context.Context
	acks   chan *proto.Ack
	broken chan struct{}
	once   sync.Once
}

func (s *pstream) fail() { s.once.Do(func() { close(s.broken) }) }

func (s *pstream) Send(a *proto.Append) error {
	select {
	case <-s.broken:
		return status.Error(codes.Unavailable, "stream broken")
	default:
	}
	off := a.Entry.Offset
	f := s.f
	f.mu.Lock()
	defer f.mu.Unlock()
	last := int64(len(f.log)) - 1
	if f.blackhole > 0 {
		f.blackhole--
		f.inFlight++
		if f.dropAcks && off == last+1 {
			f.log = append(f.log, off)
		}
		return nil
	}
	switch {
	case off <= last:
		s.acks <- &proto.Ack{Offset: off} // duplicate of an entry already held
	case off == last+1:
		f.log = append(f.log, off)
		s.acks <- &proto.Ack{Offset: off}
	default:
		f.refused++ // non-contiguous: the follower fails the stream
		s.fail()
	}
	return nil
}

func (s *pstream) Recv() (*proto.Ack, error) {
	select {
	case <-s.broken:
		return nil, status.Error(codes.Unavailable, "stream broken")
	default:
	}
	select {
	case a := <-s.acks:
		return a, nil
	case <-s.broken:
		return nil, status.Error(codes.Unavailable, "stream broken")
	case <-s.ctx.Done():
		return nil, s.ctx.Err()
	}
}
func (s *pstream) Header() (metadata.MD, error) { return nil, nil }
func (s *pstream) Trailer() metadata.MD         { return nil }
func (s *pstream) CloseSend() error             { return nil }
func (s *pstream) Context() context.Context     { return s.ctx }
func (s *pstream) SendMsg(any) error            { return nil }
func (s *pstream) RecvMsg(any) error            { return nil }

func (f *pfollower) snapshot() (logLen, streams, inFlight, refused int, up bool) {
	f.mu.Lock()
	defer f.mu.Unlock()
	up = f.cur != nil
	if up {
		select {
		case <-f.cur.broken:
			up = false
		default:
		}
	}
	return len(f.log), f.streams, f.inFlight, f.refused, up
}

type provider struct {
	followers  map[string]*follower
	pfollowers map[string]*pfollower
	dead       map[string]bool // never reachable
}

func (p *provider) Close() error { return nil }
func (p *provider) GetReplicateStream(ctx context.Context, name string, _ string, _ int64, _ int64) (proto.OxiaLogReplication_ReplicateClient, error) {
	if p.dead[name] {
		return nil, status.Error(codes.Unavailable, "follower down")
	}
	if pf := p.pfollowers[name]; pf != nil {
		st := &pstream{f: pf, ctx: ctx, acks: make(chan *proto.Ack, 1<<16), broken: make(chan struct{})}
		pf.mu.Lock()
		pf.streams++
		pf.cur = st
		pf.mu.Unlock()
		return st, nil
	}
	f := p.followers[name]
	if f == nil {
		return nil, errors.New("unknown follower")
	}
	f.ctx = ctx
	f.openOnce.Do(func() { close(f.opened) })
	return f, nil
}
func (p *provider) SendSnapshot(context.Context, string, string, int64, int64) (proto.OxiaLogReplication_SendSnapshotClient, error) {
	return nil, errors.New("snapshot not expected in this harness")
}
func (p *provider) Truncate(string, *proto.TruncateRequest) (*proto.TruncateResponse, error) {
	return nil, errors.New("truncate not expected in this harness")
}

// ---------------------------------------------------------------- one scenario

type scenario struct {
	name      string
	rf        uint32
	syncData  bool
	writers   int
	puts      int
	holdAt    []int64 // o1 gates
	earlyAck  int64   // offset for the early-ack gate, -1 = none
	asyncPair bool    // issue the writes back to back through the async API (early-ack scenario)
	ctxCancel bool    // every write has its own context, cancelled at a stage of the pipeline that cycles over the writes
	segSize   int32   // WAL segment size (0 = 256 KiB: no rollover in a scenario)
	valMax    int     // own put's value is padded to 100..valMax bytes (0 = the key only)
	trim      bool    // a trimmer round every millisecond while the writes run (retention 1 ms)
	earlyParked bool  // early-ack with rf >= 4: only f1 acks entry earlyAck ahead of the head, the other cursors are parked in WaitForHeadOffset
	ackFirst  bool    // followers: ack delivered and processed before the cursor's Send returns
	quorumOnly bool   // only rf/2 followers are alive (every one of them is needed for the quorum)
	streamBreak int   // 0 = none; k > 0: f1's stream breaks with the last k pushed entries in flight
	dropAcks  bool    // stream-break: the entries arrive, their acks are lost (false: the entries are lost)
	applyGate bool    // hold the application of offset puts-2 while the ack for puts-1 of the other follower is delivered
}

// ctl is the watchdog-protected access to the controller under test
type ctl struct {
	lc     server.LeaderController
	shard  int64
	wedged atomic.Bool
	report func(what string)
	val    func(key string) []byte
}

// bounded runs f; false = f did not return within stuckTimeout (or the controller is already known to be wedged)
func (c *ctl) bounded(what string, f func()) bool {
	if c.wedged.Load() {
		return false
	}
	done := make(chan struct{})
	go func() {
		defer close(done)
		f()
	}()
	select {
	case <-done:
		return true
	case <-time.After(stuckTimeout):
		if c.wedged.CompareAndSwap(false, true) {
			c.report(what)
		}
		return false
	}
}

func (c *ctl) offsets() (int64, int64, bool) {
	type t struct {
		h, c int64
		ok   bool
	}
	ch := make(chan t, 1)
	if !c.bounded("reading the head/commit offsets (controller read lock)", func() {
		h, cm, ok := server.VerifLeaderOffsets(c.lc)
		ch <- t{h, cm, ok}
	}) {
		return -1, -1, false
	}
	x := <-ch
	return x.h, x.c, x.ok
}

func (c *ctl) write(ctx context.Context, key string, cb concurrent.Callback[*proto.WriteResponse]) bool {
	return c.bounded("LeaderController.Write("+key+")", func() {
		c.lc.Write(ctx, &proto.WriteRequest{Shard: &c.shard, Puts: []*proto.PutRequest{
			{Key: key, Value: c.val(key)}, {Key: "shared", Value: []byte(key)}}}, cb)
	})
}

type writeRes struct {
	cancelled string // ctx-cancel scenario: the stage at which the caller's context was cancelled ("" = never)
	key     string
	err     error
	stuck   bool
	version int64
	sharedV int64
	sharedM int64
	status  proto.Status
}

func doWrite(cl *ctl, key string) writeRes {
	ch := make(chan writeRes, 1)
	if !cl.write(context.Background(), key,
		concurrent.NewOnce(func(r *proto.WriteResponse) {
			res := writeRes{key: key, version: -1, sharedV: -1, sharedM: -1}
			if len(r.Puts) == 2 && r.Puts[0].Version != nil && r.Puts[1].Version != nil {
				res.status = r.Puts[0].Status
				res.version = r.Puts[0].Version.VersionId
				res.sharedV = r.Puts[1].Version.VersionId
				res.sharedM = r.Puts[1].Version.ModificationsCount
			} else {
				res.err = fmt.Errorf("malformed response %v", r)
			}
			ch <- res
		}, func(err error) { ch <- writeRes{key: key, err: err} })) {
		return writeRes{key: key, stuck: true}
	}
	select {
	case r := <-ch:
		return r
	case <-time.After(stuckTimeout):
		return writeRes{key: key, stuck: true}
	}
}

func runScenario(o *hx.Out, sc scenario, tmpRoot string, idx int) {
	dir, err := os.MkdirTemp(tmpRoot, "c08pipe")
	hx.Must(err)
	defer os.RemoveAll(dir)

	g := newGates()
	for _, h := range sc.holdAt {
		g.holdAt[h] = true
	}
	g.cbHold = sc.earlyAck
	kvInner, err := kvsafe.New(&kv.FactoryOptions{InMemory: true, CacheSizeMB: 1, DataDir: dir + "/db"})
	hx.Must(err)
	var kvf kv.Factory = kvInner
	if sc.applyGate {
		g.holdKey = fmt.Sprintf("w0-%d", sc.puts-2)
		g.watchKey = fmt.Sprintf("w0-%d", sc.puts-1)
		kvf = &gateKVFactory{Factory: kvInner, g: g}
	}
	segSize, retention := int32(256*1024), time.Hour
	if sc.segSize > 0 {
		segSize = sc.segSize
	}
	if sc.trim {
		retention = time.Millisecond
	}
	wf := &gateFactory{inner: wal.NewWalFactory(&wal.FactoryOptions{BaseWalDir: dir + "/wal", SegmentSize: segSize,
		Retention: retention, SyncData: sc.syncData}), g: g}
	prov := &provider{followers: map[string]*follower{}, pfollowers: map[string]*pfollower{}, dead: map[string]bool{}}
	fmap := map[string]*proto.EntryId{}
	for i := uint32(1); i < sc.rf; i++ {
		n := fmt.Sprintf("f%d", i)
		if sc.streamBreak > 0 || sc.quorumOnly {
			fmap[n] = server.InvalidEntryId
			switch {
			case i == 1 && sc.streamBreak > 0:
				prov.pfollowers[n] = &pfollower{}
				continue
			case i > sc.rf/2: // only rf/2 followers are alive: each of them is needed for the quorum
				prov.dead[n] = true
				continue
			}
		}
		f := &follower{name: n, ackFirst: sc.ackFirst, procCh: make(chan int64, 1<<12), acks: make(chan *proto.Ack, 1<<16), opened: make(chan struct{}), g: g, sendHold: -1, lastOut: -1,
			ctx: context.Background(), manual: sc.applyGate || sc.ctxCancel}
		if i == 1 && sc.earlyAck > 0 {
			f.sendHold = sc.earlyAck - 1
		}
		prov.followers[n] = f
		fmap[n] = server.InvalidEntryId
	}
	var shard int64 = 1
	lc, err := server.NewLeaderController(server.Config{}, "default", shard, prov, wf, kvf)
	hx.Must(err)
	_, err = lc.NewTerm(&proto.NewTermRequest{Shard: shard, Term: 1})
	hx.Must(err)
	_, err = lc.BecomeLeader(context.Background(), &proto.BecomeLeaderRequest{Shard: shard, Term: 1, ReplicationFactor: sc.rf, FollowerMaps: fmap})
	hx.Must(err)
	for _, f := range prov.followers {
		select {
		case <-f.opened:
		case <-time.After(5 * time.Second):
			panic("follower stream never opened")
		}
	}

	viol := func(sig, det string) {
		o.Violation(sig, fmt.Sprintf("scenario %s (rf=%d syncData=%v writers=%d puts=%d holdAt=%v earlyAck=%d walSegment=%d valMax=%d trim=%v ackBeforeSendReturns=%v): %s",
			sc.name, sc.rf, sc.syncData, sc.writers, sc.puts, sc.holdAt, sc.earlyAck, segSize, sc.valMax, sc.trim, sc.ackFirst, det))
	}

	cl := &ctl{lc: lc, shard: shard}
	cl.report = func(what string) {
		viol("pipeline:controller-call-blocked", fmt.Sprintf("%s did not return within %v (segment size %d, values up to %d bytes, trim=%v)", what, stuckTimeout, segSize, sc.valMax, sc.trim))
	}
	cl.val = func(key string) []byte {
		if sc.valMax <= 100 {
			return []byte(key)
		}
		h := 0
		for _, c := range key {
			h = h*131 + int(c)
		}
		n := 100 + (h&0x7fffffff)%(sc.valMax-100)
		b := make([]byte, n)
		copy(b, key)
		for i := len(key); i < n; i++ {
			b[i] = byte('a' + i%26)
		}
		return b
	}
	wait := func(cond func() bool, d time.Duration) bool {
		return waitFor(func() bool { return cl.wedged.Load() || cond() }, d) && !cl.wedged.Load()
	}
	// trimmer rounds while the writes run
	trimStop := make(chan struct{})
	var trimWg sync.WaitGroup
	trimRounds := 0
	if sc.trim {
		trimWg.Add(1)
		go func() {
			defer trimWg.Done()
			for {
				select {
				case <-trimStop:
					return
				default:
				}
				if cl.wedged.Load() {
					return
				}
				if !cl.bounded("a WAL trimmer round (wal.VerifDoTrim -> CommitOffsetProvider)", func() { _ = wal.VerifDoTrim(wf.w.Wal) }) {
					return
				}
				trimRounds++
				time.Sleep(time.Millisecond)
			}
		}()
	}

	// commit / head sampler
	stop := make(chan struct{})
	var sampWg sync.WaitGroup
	var samples int64
	sampWg.Add(1)
	go func() {
		defer sampWg.Done()
		prev := int64(-1)
		reported := false
		for {
			select {
			case <-stop:
				return
			default:
			}
			h, c, ok := cl.offsets()
			if ok {
				samples++
				if !reported && c < prev {
					viol("pipeline:commit-regressed", fmt.Sprintf("commit offset sampled %d after %d", c, prev))
					reported = true
				}
				// head is read before commit inside the accessor, so commit may legitimately be newer than head by the
				// time it is read: only compare against a head sampled AFTER the commit
				h2, _, _ := cl.offsets()
				if !reported && c > h2 && c > h {
					viol("pipeline:commit-above-head", fmt.Sprintf("commit %d head %d", c, h2))
					reported = true
				}
				if c > prev {
					prev = c
				}
			}
			time.Sleep(50 * time.Microsecond)
		}
	}()

	total := sc.writers * sc.puts
	results := make([]writeRes, 0, total)
	var rmu sync.Mutex
	var wg sync.WaitGroup
	ctxSchedule := ""
	if sc.ctxCancel {
		stages := []string{"never", "before-admission", "in-sync-callback", "after-sync-before-quorum", "after-quorum"}
		var fs []*follower
		for i := uint32(1); i < sc.rf; i++ {
			fs = append(fs, prov.followers[fmt.Sprintf("f%d", i)])
		}
		nextOff := int64(0) // offset the next admitted write gets
		for i := 0; i < sc.puts; i++ {
			key := fmt.Sprintf("w0-%d", i)
			if cl.wedged.Load() {
				results = append(results, writeRes{key: key, stuck: true})
				continue
			}
			stage := stages[(i+idx)%len(stages)]
			ctxSchedule += fmt.Sprintf("%s:%s ", key, stage)
			ctx, cancel := context.WithCancel(context.Background())
			switch stage {
			case "before-admission":
				cancel()
			case "in-sync-callback":
				g.mu.Lock()
				g.cbCancel = cancel
				g.mu.Unlock()
			}
			ch := make(chan writeRes, 1)
			cl.write(ctx, key,
				concurrent.NewOnce(func(r *proto.WriteResponse) {
					ch <- writeRes{key: key, version: r.Puts[0].Version.VersionId, sharedV: r.Puts[1].Version.VersionId,
						sharedM: r.Puts[1].Version.ModificationsCount, status: r.Puts[0].Status}
				}, func(err error) { ch <- writeRes{key: key, err: err} }))
			// admitted? (the entry reaches the WAL and the head offset) - or refused at once
			var early *writeRes
			admitted := wait(func() bool {
				if early == nil {
					select {
					case r := <-ch:
						early = &r
					default:
					}
				}
				h, _, _ := cl.offsets()
				return h >= nextOff || (early != nil && early.err != nil)
			}, stuckTimeout)
			h, _, _ := cl.offsets()
			if admitted && h >= nextOff {
				if stage == "after-sync-before-quorum" {
					cancel()
				}
				off := nextOff
				nextOff++
				for _, f := range fs {
					if wait(func() bool { return f.hasReceived(off) }, stuckTimeout) {
						f.ack(off)
					}
				}
			}
			var r writeRes
			if early != nil {
				r = *early
			} else {
				select {
				case r = <-ch:
				case <-time.After(stuckTimeout):
					r = writeRes{key: key, stuck: true}
				}
			}
			if stage != "never" {
				r.cancelled = stage
			}
			cancel()
			results = append(results, r)
		}
	} else if sc.earlyParked {
		// sequential writer.  f1 is held inside Send(x-1) (so its cursor is not parked) until the sync callback of x has
		// been entered; the other followers acknowledge 0..x-1 and their cursors park waiting for the head to reach x
		x := sc.earlyAck
		ok := true
		for i := int64(0); i < x && ok; i++ {
			r := doWrite(cl, fmt.Sprintf("w0-%d", i))
			results = append(results, r)
			ok = !r.stuck && r.err == nil
		}
		if ok {
			for n, f := range prov.followers {
				if n != "f1" {
					f := f
					wait(func() bool { return f.hasReceived(x - 1) }, stuckTimeout)
				}
			}
			time.Sleep(3 * time.Millisecond) // the cursors go from Send(x-1) to WaitForHeadOffset(x)
		}
		for i := x; i < int64(total); i++ {
			if !ok {
				results = append(results, writeRes{key: fmt.Sprintf("w0-%d", i), stuck: true})
				continue
			}
			r := doWrite(cl, fmt.Sprintf("w0-%d", i))
			results = append(results, r)
			ok = !r.stuck && r.err == nil
		}
	} else if sc.streamBreak > 0 {
		pf := prov.pfollowers["f1"]
		k := sc.streamBreak
		warm := sc.puts - k - 1
		mode := "the entries are lost in flight"
		if sc.dropAcks {
			mode = "the entries arrive, their acks are lost in flight"
		}
		sched := fmt.Sprintf("rf=%d, followers alive: %d (f1 among them); %d writes acknowledged; %d more writes pushed to f1, %s, the stream breaks; the cursor re-attaches in the same term",
			sc.rf, sc.rf/2, warm, k, mode)
		ok := true
		for i := 0; i < warm && ok; i++ {
			r := doWrite(cl, fmt.Sprintf("w0-%d", i))
			results = append(results, r)
			ok = !r.stuck && r.err == nil
		}
		if ok {
			pf.mu.Lock()
			pf.blackhole, pf.dropAcks, pf.inFlight = k, sc.dropAcks, 0
			pf.mu.Unlock()
			chs := make([]chan writeRes, k)
			for j := 0; j < k; j++ {
				key := fmt.Sprintf("w0-%d", warm+j)
				ch := make(chan writeRes, 1)
				chs[j] = ch
				cl.write(context.Background(), key, concurrent.NewOnce(func(r *proto.WriteResponse) {
					ch <- writeRes{key: key, version: r.Puts[0].Version.VersionId, sharedV: r.Puts[1].Version.VersionId,
						sharedM: r.Puts[1].Version.ModificationsCount, status: r.Puts[0].Status}
				}, func(err error) { ch <- writeRes{key: key, err: err} }))
			}
			pushed := wait(func() bool { _, _, n, _, _ := pf.snapshot(); return n >= k }, stuckTimeout)
			_, before, _, _, _ := pf.snapshot()
			pf.mu.Lock()
			pf.blackhole = 0
			st := pf.cur
			pf.mu.Unlock()
			if st != nil {
				st.fail()
			}
			reattached := wait(func() bool { _, n, _, _, _ := pf.snapshot(); return n > before }, stuckTimeout)
			if !pushed || !reattached {
				o.Count("gate:stream-break-not-realised")
			} else {
				o.Count("gate:stream-broken-with-messages-in-flight")
			}
			// no further write: the re-attached cursor alone must get the window acknowledged
			windowDeadline := time.After(stuckTimeout)
			for j := 0; j < k; j++ {
				select {
				case r := <-chs[j]:
					results = append(results, r)
				case <-windowDeadline:
					windowDeadline = time.After(0)
					results = append(results, writeRes{key: fmt.Sprintf("w0-%d", warm+j), stuck: true})
					ok = false
				}
			}
			h, _, _ := cl.offsets()
			caughtWait := stuckTimeout
			if !ok {
				caughtWait = 200 * time.Millisecond // the window already had its full time
			}
			caught := wait(func() bool { n, _, _, _, _ := pf.snapshot(); return int64(n) >= h+1 }, caughtWait)
			if reattached && !caught {
				n, streams, _, refused, up := pf.snapshot()
				viol("cursor:unacked-window-not-resent", fmt.Sprintf("%s => %v later the follower holds %d entries, the leader head is %d (streams opened %d, current stream up=%v, non-contiguous appends refused by the follower: %d)",
					sched, stuckTimeout, n, h, streams, up, refused))
				ok = false
			}
			// and the term goes on
			if ok {
				results = append(results, doWrite(cl, fmt.Sprintf("w0-%d", warm+k)))
			} else {
				results = append(results, writeRes{key: fmt.Sprintf("w0-%d", warm+k), stuck: true})
			}
		}
		for len(results) < total {
			results = append(results, writeRes{key: fmt.Sprintf("w0-%d", len(results)), stuck: true})
		}
	} else if sc.applyGate {
		fa, fb := prov.followers["f1"], prov.followers["f2"]
		n := int64(sc.puts - 2)
		issue := func(i int) chan writeRes {
			key := fmt.Sprintf("w0-%d", i)
			ch := make(chan writeRes, 1)
			cl.write(context.Background(), key,
				concurrent.NewOnce(func(r *proto.WriteResponse) {
					ch <- writeRes{key: key, version: r.Puts[0].Version.VersionId, sharedV: r.Puts[1].Version.VersionId,
						sharedM: r.Puts[1].Version.ModificationsCount, status: r.Puts[0].Status}
				}, func(err error) { ch <- writeRes{key: key, err: err} }))
			return ch
		}
		collect := func(i int, ch chan writeRes) {
			select {
			case r := <-ch:
				results = append(results, r)
			case <-time.After(stuckTimeout):
				results = append(results, writeRes{key: fmt.Sprintf("w0-%d", i), stuck: true})
			}
		}
		realised := true
		// warm-up writes 0..n-1, acknowledged by both followers one after the other
		for i := int64(0); i < n && realised; i++ {
			ch := issue(int(i))
			realised = wait(func() bool { return fa.hasReceived(i) && fb.hasReceived(i) }, 3*time.Second)
			fa.ack(i)
			fb.ack(i)
			collect(int(i), ch)
		}
		// two writes in flight: n and n+1, synced on the leader, sent to both followers, nobody acked yet
		chX := issue(int(n))
		chY := issue(int(n + 1))
		realised = realised && wait(func() bool {
			h, _, _ := cl.offsets()
			return h >= n+1 && fa.hasReceived(n+1) && fb.hasReceived(n+1)
		}, 3*time.Second)
		schedule := fmt.Sprintf("rf=3, offsets %d and %d appended, synced and sent to f1,f2; f1 acks %d => ProcessWrite(%d) starts and is held in batch.Commit; f2 acks %d,%d",
			n, n+1, n, n, n, n+1)
		// follower A acks n: the leader starts applying n, held inside the KV layer
		fa.ack(n)
		entered := false
		select {
		case <-g.holdEntered:
			entered = true
		case <-time.After(3 * time.Second):
		}
		if realised && entered {
			// follower B acks n and n+1 while n is being applied
			fb.ack(n)
			fb.ack(n + 1)
			select {
			case <-g.watchAttempted:
				viol("pipeline:applied-out-of-order", fmt.Sprintf("%s => the application of offset %d (batch.Commit) started while the application of offset %d had not finished",
					schedule, n+1, n))
			case <-time.After(gateTimeout):
				o.Count("gate:apply-held(next offset observed waiting)")
			}
		} else {
			o.Count("gate:apply-gate-not-realised")
			fb.ack(n)
			fb.ack(n + 1)
		}
		close(g.holdRelease)
		fa.ack(n + 1)
		collect(int(n), chX)
		collect(int(n+1), chY)
	} else if sc.asyncPair {
		// all writes of a "writer" are issued back to back without waiting for the previous response
		for w := 0; w < sc.writers; w++ {
			for i := 0; i < sc.puts; i++ {
				wg.Add(1)
				key := fmt.Sprintf("w%d-%d", w, i)
				ch := make(chan writeRes, 1)
				go func() {
					defer wg.Done()
					select {
					case r := <-ch:
						rmu.Lock()
						results = append(results, r)
						rmu.Unlock()
					case <-time.After(stuckTimeout):
						rmu.Lock()
						results = append(results, writeRes{key: key, stuck: true})
						rmu.Unlock()
					}
				}()
				cl.write(context.Background(), key,
					concurrent.NewOnce(func(r *proto.WriteResponse) {
						ch <- writeRes{key: key, version: r.Puts[0].Version.VersionId, sharedV: r.Puts[1].Version.VersionId,
							sharedM: r.Puts[1].Version.ModificationsCount, status: r.Puts[0].Status}
					}, func(err error) { ch <- writeRes{key: key, err: err} }))
			}
		}
	} else {
		start := make(chan struct{})
		for w := 0; w < sc.writers; w++ {
			wg.Add(1)
			go func(w int) {
				defer wg.Done()
				<-start
				for i := 0; i < sc.puts; i++ {
					r := doWrite(cl, fmt.Sprintf("w%d-%d", w, i))
					rmu.Lock()
					results = append(results, r)
					rmu.Unlock()
					if r.stuck {
						return
					}
				}
			}(w)
		}
		close(start)
	}
	wg.Wait()
	close(trimStop)
	trimWg.Wait()
	o.CountN("trim-rounds", trimRounds)
	// let the followers' last acks land, then sample the final offsets
	var head, commit int64
	for i := 0; i < 400; i++ {
		head, commit, _ = cl.offsets()
		if commit >= int64(total-1) {
			break
		}
		time.Sleep(5 * time.Millisecond)
	}
	close(stop)
	sampWg.Wait()

	// ---- the WAL itself: which request sits at which offset
	var walKeys []string
	var walOffsets []int64
	offsetOf := map[string]int64{}
	walFirst := int64(0)
	cl.bounded("reading the leader WAL (WAL lock)", func() {
		if f := wf.w.Wal.FirstOffset(); f > 0 {
			walFirst = f
		}
		rd, err := wf.w.Wal.NewReader(walFirst - 1)
		if err != nil {
			return
		}
		for rd.HasNext() {
			e, err := rd.ReadNext()
			if err != nil {
				break
			}
			lev := &proto.LogEntryValue{}
			k := "?"
			if lev.UnmarshalVT(e.Value) == nil && len(lev.GetRequests().GetWrites()) == 1 && len(lev.GetRequests().Writes[0].Puts) > 0 {
				k = lev.GetRequests().Writes[0].Puts[0].Key
			}
			walOffsets = append(walOffsets, e.Offset)
			walKeys = append(walKeys, k)
			if _, dup := offsetOf[k]; dup {
				viol("pipeline:duplicate-offset", fmt.Sprintf("the request %s is in the WAL twice", k))
			}
			offsetOf[k] = e.Offset
		}
		_ = rd.Close()
	})
	retained := total - int(walFirst) // entries trimmed away are not inspected
	o.CountN("wal-entries-trimmed-while-writing", int(walFirst))
	for i, off := range walOffsets {
		if off != walFirst+int64(i) {
			viol("pipeline:wal-gap", fmt.Sprintf("WAL entry #%d has offset %d", i, off))
			break
		}
	}

	// ---- verdicts on the responses.  Every request puts its own key and the key "shared"; the DB hands out
	// version ids from one counter in application order, so the request applied k-th sees versions 2k, 2k+1 and
	// k earlier modifications of "shared".  Applied in offset order, once each, own response <=> k = its WAL offset.
	// a WAL flush that fails with EINVAL: the sync goroutine picks the current segment under the WAL lock and flushes it
	// after releasing the lock; a rollover in between closes (unmaps) that segment (wal_impl.go:runSync vs
	// rolloverSegment).  Every write of that sync batch is failed although its entry is in the WAL.  It is a defect of the
	// WAL (C09), reported under its own signature; the order verdicts below are meaningless after it.
	nWalSync := 0
	for _, r := range results {
		if r.err != nil && sc.segSize > 0 && strings.Contains(r.err.Error(), "invalid argument") {
			nWalSync++
		}
	}
	if nWalSync > 0 {
		viol("pipeline:wal-sync-error-at-segment-rollover", fmt.Sprintf("%d of %d writes failed with 'failed to append to wal: invalid argument' while the WAL was rolling segments over", nWalSync, total))
	}
	nerr, nstuck, ncancelled := 0, 0, 0
	firstErr := ""
	seenVersion := map[int64]string{}
	for _, r := range results {
		switch {
		case r.stuck:
			nstuck++
		case r.err != nil && r.cancelled != "" && errors.Is(r.err, context.Canceled):
			// the caller gave up: an error answer is acceptable, the entry (if admitted) must still be applied - checked below
			ncancelled++
		case r.err != nil && nWalSync > 0 && strings.Contains(r.err.Error(), "invalid argument"):
			ncancelled++ // accounted for above; keeps the count-based verdicts off
		case r.err != nil:
			nerr++
			if firstErr == "" {
				firstErr = fmt.Sprintf("%s: %v", r.key, r.err)
			}
		default:
			if prev, dup := seenVersion[r.version]; dup {
				viol("pipeline:duplicate-offset", fmt.Sprintf("writes %s and %s were both answered with version %d", prev, r.key, r.version))
			}
			seenVersion[r.version] = r.key
			if r.status != proto.Status_OK {
				viol("pipeline:write-failed-with-healthy-quorum", fmt.Sprintf("write %s: status %v", r.key, r.status))
			}
			off, inWal := offsetOf[r.key]
			if !inWal && (walFirst > 0 || cl.wedged.Load()) {
				continue // trimmed away / the WAL of a wedged controller cannot be read
			}
			if !inWal {
				viol("pipeline:response-not-own", fmt.Sprintf("write %s was answered (version %d) but is not in the WAL", r.key, r.version))
				continue
			}
			if nWalSync == 0 && (r.version != 2*off || r.sharedV != 2*off+1 || r.sharedM != off) {
				viol("pipeline:applied-out-of-order-or-foreign-response", fmt.Sprintf(
					"write %s sits at WAL offset %d, its response carries versions %d,%d and %d earlier modifications of the shared key (expected %d,%d,%d: applied once each in offset order, own response)",
					r.key, off, r.version, r.sharedV, r.sharedM, 2*off, 2*off+1, off))
			}
		}
	}
	if nerr > 0 {
		viol("pipeline:write-failed-with-healthy-quorum", fmt.Sprintf("%d of %d concurrent writes failed, first: %s", nerr, total, firstErr))
	}
	if nstuck > 0 {
		viol("pipeline:write-stuck-with-healthy-quorum", fmt.Sprintf("%d of %d writes got no response within %v although every follower acknowledged everything it was sent", nstuck, total, stuckTimeout))
	}
	if nstuck == 0 && len(walOffsets) != retained-nerr && nerr == 0 && ncancelled == 0 && !cl.wedged.Load() {
		viol("pipeline:wal-gap", fmt.Sprintf("%d writes were answered, the WAL holds %d entries from offset %d on (offsets %v...)", total, len(walOffsets), walFirst, head5(walOffsets)))
	}
	if nerr > 0 && len(walOffsets) < retained-nerr && !cl.wedged.Load() {
		viol("pipeline:wal-gap", fmt.Sprintf("%d writes succeeded, the WAL holds only %d entries from offset %d on", total-nerr, len(walOffsets), walFirst))
	}
	if sc.ctxCancel {
		// every entry of the WAL up to the commit offset must have been applied on the leader: readable, and with the
		// version ids of the position it has in the log (two puts per entry, one version counter, offset order)
		stageOf := map[string]string{}
		for _, r := range results {
			stageOf[r.key] = r.cancelled
		}
		for i, k := range walKeys {
			off := walOffsets[i]
			if off > commit {
				continue
			}
			st, ver, rerr := readKey(cl, k)
			switch {
			case rerr != nil:
				viol("pipeline:committed-entry-never-applied", fmt.Sprintf("schedule [%s]: reading %s (WAL offset %d <= commit %d) failed: %v", ctxSchedule, k, off, commit, rerr))
			case st != proto.Status_OK:
				viol("pipeline:committed-entry-never-applied", fmt.Sprintf(
					"schedule [%s] (stage = where the caller's context was cancelled): the request %s (cancelled: %q) is in the leader WAL at offset %d, commit offset is %d, head %d, but the leader DB answers %v for its key: the entry was committed and never applied",
					ctxSchedule, k, stageOf[k], off, commit, head, st))
			case ver != 2*off:
				viol("pipeline:applied-out-of-order", fmt.Sprintf("schedule [%s]: %s sits at WAL offset %d but was applied as version %d (expected %d)", ctxSchedule, k, off, ver, 2*off))
			}
		}
		if nstuck == 0 && nerr == 0 && (head != int64(len(walOffsets)-1) || commit != head) {
			viol("pipeline:head-or-commit-lags-wal", fmt.Sprintf("schedule [%s]: WAL holds %d entries, head=%d commit=%d", ctxSchedule, len(walOffsets), head, commit))
		}
	}
	if nerr == 0 && nstuck == 0 && ncancelled == 0 {
		if head != int64(total-1) || commit != int64(total-1) {
			viol("pipeline:head-or-commit-lags-wal", fmt.Sprintf("all %d writes answered, head=%d commit=%d", total, head, commit))
		}
	}
	// at quiescence the commit offset is not below the highest offset stored by the leader and rf/2 followers
	if req := int(sc.rf / 2); req > 0 && !cl.wedged.Load() {
		var lens []int
		for _, f := range prov.followers {
			f.mu.Lock()
			lens = append(lens, len(f.received))
			f.mu.Unlock()
		}
		for _, pf := range prov.pfollowers {
			n, _, _, _, _ := pf.snapshot()
			lens = append(lens, n)
		}
		sort.Sort(sort.Reverse(sort.IntSlice(lens)))
		if len(lens) >= req {
			q := int64(lens[req-1]) - 1
			if q > head {
				q = head
			}
			if commit < q {
				viol("tracker:commit-lags-quorum", fmt.Sprintf("at quiescence commit=%d head=%d, but %d follower(s) hold the log up to offset %d (entries held per follower: %v) and acknowledged every entry they received",
					commit, head, req, q, lens))
			}
		}
		for _, f := range prov.followers {
			o.CountN("gate:ack-processed-before-send-returned", int(atomic.LoadInt32(&f.settled)))
		}
	}
	// followers received the log in order
	for _, f := range prov.followers {
		f.mu.Lock()
		for i, off := range f.received {
			if off != int64(i) {
				viol("pipeline:follower-stream-out-of-order", fmt.Sprintf("%s received offset %d as message #%d", f.name, off, i))
				break
			}
		}
		f.mu.Unlock()
	}

	forced := atomic.LoadInt32(&g.forced)
	o.CountN("gate:o1-forced(other writer got through while one was held)", int(forced))
	o.CountN("gate:o1-not-realisable(lock held: nobody can overtake)", int(atomic.LoadInt32(&g.timedOut)))
	o.CountN("gate:early-ack-forced", int(atomic.LoadInt32(&g.cbForced)))
	o.CountN("writes", total)
	o.CountN("commit-samples", int(samples))
	o.Count("scenario:" + sc.name)
	verdict := "ok"
	if nerr > 0 || nstuck > 0 {
		verdict = fmt.Sprintf("failed=%d stuck=%d", nerr, nstuck)
	}
	o.Case("pipe", fmt.Sprintf("%s rf=%d sync=%v writers=%d puts=%d hold=%v early=%d seg=%d valmax=%d trim=%v ackFirst=%v break=%d dropAcks=%v", sc.name, sc.rf, sc.syncData, sc.writers, sc.puts, sc.holdAt, sc.earlyAck, segSize, sc.valMax, sc.trim, sc.ackFirst, sc.streamBreak, sc.dropAcks),
		fmt.Sprintf("%s writes=%d wal=%d head=%d commit=%d", verdict, total, len(walOffsets), head, commit),
		fmt.Sprintf("%s/%d/%v/%d/%d/%d", sc.name, sc.rf, sc.syncData, sc.writers, sc.puts, idx))

	cl.bounded("LeaderController.GetStatus", func() { _, _ = lc.GetStatus(&proto.GetStatusRequest{Shard: shard}) })
	cl.bounded("LeaderController.Close", func() { _ = lc.Close() })
	// on a wedged controller the resources are leaked (the process ends soon), never waited for
	cl.bounded("closing the KV factory", func() { _ = kvInner.Close() })
	cl.bounded("closing the WAL factory", func() { _ = wf.Close() })
	if cl.wedged.Load() || nstuck > 0 {
		wedgedScenarios[sc.name] = true
	}
}

// scenario kinds on which the controller wedged or a write got stuck (already a verdict) are not run again in the
// same process: each such run costs several watchdog timeouts
var wedgedScenarios = map[string]bool{}

// readKey reads one key through the leader's public read path
func readKey(cl *ctl, key string) (proto.Status, int64, error) {
	ch := make(chan *entity.TWithError[*proto.GetResponse], 4)
	if !cl.bounded("LeaderController.Read("+key+")", func() {
		cl.lc.Read(context.Background(), &proto.ReadRequest{Shard: &cl.shard, Gets: []*proto.GetRequest{{Key: key}}}, concurrent.ReadFromStreamCallback(ch))
	}) {
		return -1, -1, errors.New("the controller does not answer")
	}
	var st proto.Status = -1
	var ver int64 = -1
	deadline := time.After(stuckTimeout)
	for {
		select {
		case x, ok := <-ch:
			if !ok {
				if st == -1 {
					return st, ver, errors.New("no answer")
				}
				return st, ver, nil
			}
			if x.Err != nil {
				return st, ver, x.Err
			}
			st = x.T.Status
			if x.T.Version != nil {
				ver = x.T.Version.VersionId
			}
		case <-deadline:
			return st, ver, errors.New("read timed out")
		}
	}
}

func head5(l []int64) []int64 {
	if len(l) > 8 {
		return l[:8]
	}
	return l
}

func main() {
	fl := hx.ParseFlags()
	o := hx.NewOut(fl.OutDir)
	defer o.Close()
	tmp := os.Getenv("VERIF_TMP")
	if tmp == "" {
		tmp = "/var/tmp"
	}
	r := hx.NewRng(fl.Seed)
	scale := fl.N
	if scale < 1 {
		scale = 1
	}
	idx := 0
	run := func(sc scenario) {
		idx++
		if only := os.Getenv("VERIF_PIPE_ONLY"); only != "" && !strings.HasPrefix(sc.name, only) {
			return
		}
		if wedgedScenarios[sc.name] {
			o.Count("skipped(after a wedged controller in this kind):" + sc.name)
			return
		}
		runScenario(o, sc, tmp, idx)
	}
	for round := 0; round < scale; round++ {
		ws := []int{2, 3, 4, 8, 16}
		// free-running concurrency
		run(scenario{name: "free-rf1", rf: 1, syncData: false, writers: hx.Pick(r, ws), puts: 20 + r.Intn(40), earlyAck: -1})
		run(scenario{name: "free-rf1-sync", rf: 1, syncData: true, writers: hx.Pick(r, ws), puts: 10 + r.Intn(20), earlyAck: -1})
		run(scenario{name: "free-rf3", rf: 3, syncData: r.Bool(), writers: hx.Pick(r, ws), puts: 10 + r.Intn(30), earlyAck: -1, ackFirst: r.Chance(30)})
		run(scenario{name: "free-rf2", rf: 2, syncData: r.Bool(), writers: hx.Pick(r, ws), puts: 10 + r.Intn(20), earlyAck: -1, ackFirst: r.Chance(30)})
		// forced: the ack is processed by the leader before the cursor's Send returns; one sequential writer
		for _, rf := range []uint32{2, 3} {
			run(scenario{name: fmt.Sprintf("ack-before-send-returns-rf%d", rf), rf: rf, syncData: r.Bool(), writers: 1, puts: 4 + r.Intn(6),
				earlyAck: -1, ackFirst: true, quorumOnly: true})
		}
		// the same over a WAL that rolls over every few entries (and is trimmed while the writes run, rf <= 2)
		segs := []int32{8 * 1024, 16 * 1024, 32 * 1024}
		run(scenario{name: "roll-rf1", rf: 1, syncData: r.Bool(), writers: hx.Pick(r, ws), puts: 12 + r.Intn(20), earlyAck: -1,
			segSize: hx.Pick(r, segs), valMax: 600 + r.Intn(2400), trim: true})
		run(scenario{name: "roll-rf2", rf: 2, syncData: r.Bool(), writers: hx.Pick(r, ws), puts: 10 + r.Intn(16), earlyAck: -1,
			segSize: hx.Pick(r, segs), valMax: 600 + r.Intn(2400), trim: true})
		run(scenario{name: "roll-rf3", rf: 3, syncData: r.Bool(), writers: hx.Pick(r, ws), puts: 10 + r.Intn(16), earlyAck: -1,
			segSize: hx.Pick(r, segs), valMax: 600 + r.Intn(2400)})
		// forced: a writer is held between allocation and append
		h1 := int64(1 + r.Intn(4))
		run(scenario{name: "o1-gate", rf: 1, syncData: r.Bool(), writers: 2 + r.Intn(3), puts: 6 + r.Intn(6), holdAt: []int64{h1, h1 + 3 + int64(r.Intn(4))}, earlyAck: -1})
		run(scenario{name: "o1-gate-rf3", rf: 3, syncData: true, writers: 2 + r.Intn(3), puts: 6 + r.Intn(6), holdAt: []int64{h1}, earlyAck: -1})
		// forced: follower ack overtakes the head advance
		x := int64(1 + r.Intn(5))
		run(scenario{name: "early-ack", rf: 2, syncData: true, writers: 1, puts: int(x) + 1, earlyAck: x, asyncPair: true})
		// forced: with rf 4 and 5 one follower acks ahead of the head (fewer than the quorum), the other cursors are parked
		for _, rf := range []uint32{4, 5} {
			xx := int64(1 + r.Intn(4))
			run(scenario{name: fmt.Sprintf("early-ack-parked-rf%d", rf), rf: rf, syncData: true, writers: 1, puts: int(xx) + 2, earlyAck: xx, earlyParked: true})
		}
		// forced: offset n is being applied while the other follower acknowledges n+1
		// forced: the caller's context is cancelled at every stage of the pipeline, rf 1..5
		for rf := uint32(1); rf <= 5; rf++ {
			sc := scenario{name: "ctx-cancel", rf: rf, syncData: r.Bool(), writers: 1, puts: 6 + r.Intn(6), earlyAck: -1, ctxCancel: true}
			if rf%2 == 1 {
				sc.name, sc.segSize, sc.valMax, sc.puts = "ctx-cancel-roll", 8*1024, 3000, 10+r.Intn(8)
			}
			run(sc)
		}
		// forced: the real follower cursor over a stream that breaks with messages in flight, same term
		for _, rf := range []uint32{2, 3, 5} {
			k := 1 + r.Intn(4)
			run(scenario{name: fmt.Sprintf("stream-break-rf%d", rf), rf: rf, syncData: r.Bool(), writers: 1, puts: r.Intn(4) + k + 1, earlyAck: -1,
				streamBreak: k, dropAcks: r.Bool()})
		}
		run(scenario{name: "apply-gate", rf: 3, syncData: r.Bool(), writers: 1, puts: 2 + r.Intn(4), earlyAck: -1, applyGate: true})
	}
}
